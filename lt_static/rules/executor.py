"""Rules over runners/process.py's executor: who may create processes, the worker gate, future /
slot typestate pairing, dead-process detection, top-up, cancel/stop completeness.
Serves C04, C05, C11, C14, C16."""
from __future__ import annotations

import ast
from dataclasses import dataclass
from typing import Optional

from .. import roles
from ..dataflow import expand_locals
from ..engine import (Ctx, calls_in, cond_from_entry, cond_in_loop, early_exits, field_writes, formula_of, kwarg,
                      loop_region, rule, same_expr, strip_order_preserving)
from ..formula import TRUE, canon, equivalent, implies, linearize, show
from ..model import PKG, AnalysisError, FuncInfo, dotted, src, walk_local

PROCESS_CREATION = ('multiprocessing.Process', 'multiprocessing.context.Process', 'multiprocessing.process.BaseProcess',
                    'os.fork', 'os.forkpty', 'os.system', 'os.posix_spawn', 'os.posix_spawnp', 'os.popen',
                    'multiprocessing.Pool', 'multiprocessing.pool.Pool', 'multiprocessing.pool.ThreadPool',
                    'concurrent.futures.ProcessPoolExecutor', 'concurrent.futures.ThreadPoolExecutor',
                    'concurrent.futures.process.ProcessPoolExecutor', 'concurrent.futures.thread.ThreadPoolExecutor')
THREAD_CREATION = ('threading.Thread', '_thread.start_new_thread', 'threading.Timer')


@dataclass
class Creation:
    fn: FuncInfo
    call: ast.Call
    kind: str      # 'process' | 'thread' | 'other-process-api'
    name: str


def creations(ctx: Ctx) -> list[Creation]:
    """Every call in the package that creates a process or a thread."""
    store = ctx.__dict__.setdefault('_roles', {})
    if 'creations' in store:
        return store['creations']
    out: list[Creation] = []
    for fn in ctx.P.all_functions():
        for call in calls_in(fn.node):
            d = dotted(call.func)
            r = None
            if d is not None and not ctx.P._is_local_name(d.split('.')[0], fn):
                r = ctx.P.resolve_dotted(fn.module, d)
            attr = call.func.attr if isinstance(call.func, ast.Attribute) else None
            if r in THREAD_CREATION:
                out.append(Creation(fn, call, 'thread', r))
            elif r is not None and (r in PROCESS_CREATION or r.startswith('subprocess.') or r.startswith('os.spawn')
                                    or r.startswith('os.exec')):
                out.append(Creation(fn, call, 'process' if r.endswith('Process') else 'other-process-api', r))
            elif attr == 'Process' and r != 'psutil.Process':
                out.append(Creation(fn, call, 'process', f'{src(call.func)}'))
            elif attr in ('Pool', 'ProcessPoolExecutor', 'ThreadPoolExecutor') and r is None:
                out.append(Creation(fn, call, 'other-process-api', src(call.func)))
    store['creations'] = out
    return out


@dataclass
class Executor:
    cls: object
    topup: FuncInfo
    pending: str
    running: str
    construct: ast.Call
    loop: Optional[ast.AST]
    fvar: Optional[str]


def executor(ctx: Ctx) -> Executor:
    store = ctx.__dict__.setdefault('_roles', {})
    if 'executor' in store:
        return store['executor']
    procs = [c for c in creations(ctx) if c.kind == 'process' and c.fn.module.name.endswith('runners.process')]
    fns = {c.fn.qualname for c in procs}
    if len(fns) != 1:
        raise AnalysisError(f'expected process construction in exactly one function of runners/process.py, found {sorted(fns)}')
    c = procs[0]
    fn = c.fn
    if fn.cls is None:
        raise AnalysisError(f'{fn.where()}: process construction outside a class')
    sn = fn.self_name
    lp = roles.enclosing_loop_of(fn.node, c.call)
    fvar = lp.target.id if isinstance(lp, ast.For) and isinstance(lp.target, ast.Name) else None
    if isinstance(lp, ast.While):
        # `future = next(iter(<pending>))` inside a while-form start loop
        for n in walk_local(lp):
            if isinstance(n, ast.Assign) and isinstance(n.targets[0], ast.Name) and isinstance(n.value, ast.Call) \
                    and dotted(n.value.func) == 'next' and n.value.args and isinstance(n.value.args[0], ast.Call) \
                    and dotted(n.value.args[0].func) == 'iter':
                fvar = n.targets[0].id
    # running map: item store whose value tuple contains the process variable
    running = None
    pending = None
    for w in field_writes(fn):
        if w.kind == 'item_store':
            running = running or w.field
        if w.kind in ('item_delete', 'mutcall:pop'):
            pending = pending or w.field
    subm = ctx.P.find_method(fn.cls, 'submit')
    if subm is not None:
        for w in field_writes(subm):
            if w.kind == 'item_store':
                pending = w.field
    if running is None or pending is None:
        raise AnalysisError(f'{fn.where()}: cannot identify the pending / running maps of the executor')
    ex = Executor(fn.cls, fn, pending, running, c.call, lp, fvar)
    store['executor'] = ex
    return ex


@rule('C04.WHO-MAY-START', ['C04', 'C16'])
def who_may_start(ctx: Ctx):
    """Processes and threads are created only at the sanctioned sites: one Process construction in the
    executor's top-up routine, one helper Thread for the result-queue consumer."""
    cs = creations(ctx)
    procs = [c for c in cs if c.kind == 'process']
    fns = sorted({c.fn.qualname for c in procs})
    if not procs:
        yield ctx.ob('C04.WHO-MAY-START', False, None, None, 'process construction', 'no process construction found in the package',
                     construct='no-process', path='labtech/runners/process.py')
        return
    home = None
    try:
        home = executor(ctx).topup.qualname
    except AnalysisError:
        home = None
    for c in cs:
        if c.kind == 'process':
            ok = home is not None and c.fn.qualname == home
            yield ctx.ob('C04.WHO-MAY-START', ok, c.fn, c.call, f'process construction {c.name}',
                         '' if ok else f'`{src(c.call)[:80]}` constructs a process outside the executor\'s single top-up routine '
                         f'({home}); the max_workers bound does not cover it')
        elif c.kind == 'other-process-api':
            yield ctx.ob('C04.WHO-MAY-START', False, c.fn, c.call, f'process API {c.name}',
                         f'`{src(c.call)[:80]}` starts processes/threads outside the executor')
        else:
            ok = False
            try:
                _cons, _host, _thread = queue_consumer(ctx)
                ok = _thread is c.call
            except AnalysisError:
                ok = False
            yield ctx.ob('C04.WHO-MAY-START', ok, c.fn, c.call, f'thread construction {c.name}',
                         '' if ok else f'`{src(c.call)[:80]}` creates a thread that is not the executor\'s local queue consumer')
    # .start() on a process object only in the top-up routine
    if home is not None:
        ex = executor(ctx)
        for fn in ctx.P.all_functions():
            if not fn.module.name.startswith(f'{PKG}.runners'):
                continue
            for call in calls_in(fn.node):
                if isinstance(call.func, ast.Attribute) and call.func.attr in ('start', 'run') and not call.args \
                        and isinstance(call.func.value, ast.Name) and 'process' in call.func.value.id.lower():
                    ok = fn.qualname == home
                    yield ctx.ob('C04.WHO-MAY-START', ok, fn, call, 'process.start()',
                                 '' if ok else 'a process is started outside the top-up routine')


@rule('C04.WORKER-GATE', ['C04', 'C05', 'C11', 'C14'])
def worker_gate(ctx: Ctx):
    """The top-up routine starts exactly max(0, max_workers - len(running)) of the oldest pending
    futures, registering each in the running map before starting it."""
    ex = executor(ctx)
    fn = ex.topup
    sn = fn.self_name
    g = ctx.cfg(fn)
    rd = ctx.rd(fn)
    lp = ex.loop
    if lp is None:
        yield ctx.ob('C04.WORKER-GATE', False, fn, ex.construct, 'bounded start loop',
                     'the process construction is not inside a loop bounded by the free worker slots', construct='no-loop')
        return
    W = canon(ast.parse(f'{sn}.max_workers', mode='eval').body)
    R = canon(ast.parse(f'len({sn}.{ex.running})', mode='eval').body)
    bound_ok = False
    msg = ''
    if isinstance(lp, ast.For):
        it = lp.iter
        itn = [n for n in g.nodes_containing(it) if g.node(n).kind == 'iter_eval']
        full = expand_locals(g, rd, it, itn[0] if itn else g.primary(lp))
        while isinstance(full, ast.Call) and dotted(full.func) in ('list', 'tuple', 'iter') and len(full.args) == 1 and not full.keywords:
            full = full.args[0]
        coll, n = None, None
        if isinstance(full, ast.Subscript) and isinstance(full.slice, ast.Slice) and full.slice.lower is None \
                and full.slice.step is None and full.slice.upper is not None:
            coll, n = full.value, full.slice.upper
        elif isinstance(full, ast.Call) and dotted(full.func) in ('islice', 'itertools.islice') and len(full.args) == 2:
            coll, n = full.args[0], full.args[1]
        if coll is None:
            msg = f'the start loop iterates `{src(full)}`, which is not a prefix [:n] of the pending futures'
        else:
            base = strip_order_preserving(coll)
            coll_ok = same_expr(base, ast.parse(f'{sn}.{ex.pending}', mode='eval').body)
            inner = n
            clamp = False
            if isinstance(n, ast.Call) and dotted(n.func) == 'max' and len(n.args) == 2:
                zs = [a for a in n.args if isinstance(a, ast.Constant) and a.value == 0]
                others = [a for a in n.args if not (isinstance(a, ast.Constant) and a.value == 0)]
                if len(zs) == 1 and len(others) == 1:
                    inner, clamp = others[0], True
            lin = linearize(inner)
            lin_ok = lin is not None and lin[1] == 0 and lin[0] == {W: 1, R: -1}
            bound_ok = coll_ok and clamp and lin_ok
            if not coll_ok:
                msg = f'the start loop takes its prefix from `{src(coll)}`, not from the pending futures {sn}.{ex.pending}'
            elif not lin_ok:
                msg = (f'the number of processes started is `{src(n)}`; expected max(0, {sn}.max_workers - len({sn}.{ex.running})) '
                       f'(normal form {lin})')
            elif not clamp:
                msg = f'the bound `{src(n)}` is not clamped at 0: a negative slice bound starts almost all pending futures'
    elif isinstance(lp, ast.While):
        have = formula_of(ctx, fn, lp.test)
        need = formula_of(ctx, fn, f'len({sn}.{ex.running}) < {sn}.max_workers')
        need2 = formula_of(ctx, fn, f'(len({sn}.{ex.running}) < {sn}.max_workers) and (len({sn}.{ex.pending}) > 0)')
        bound_ok = equivalent(have, need2) or equivalent(have, need)
        msg = f'the start loop continues while {show(have)}; expected {show(need2)}'
        if not bound_ok:
            # counter form: `n = max(0, W - len(running))`; `while n > 0 and pending: ...; n -= 1`
            cnt = None
            for nm in [x.id for x in ast.walk(lp.test) if isinstance(x, ast.Name)]:
                decs = [a for a in walk_local(lp) if isinstance(a, ast.AugAssign) and isinstance(a.target, ast.Name) and a.target.id == nm
                        and isinstance(a.op, ast.Sub) and isinstance(a.value, ast.Constant) and a.value.value == 1]
                if len(decs) == 1:
                    cnt = (nm, decs[0])
            if cnt is not None:
                nm, dec = cnt
                need3 = formula_of(ctx, fn, f'({nm} > 0) and (len({sn}.{ex.pending}) > 0)')
                init_defs = [d for d in rd.reaching(g.primary(lp), nm) if d != g.primary(dec)]
                init_ok = False
                if len(init_defs) == 1:
                    dv = rd.def_value(init_defs[0], nm)
                    if dv and dv[0] == 'value':
                        n0 = dv[1]
                        inner0, clamp0 = n0, False
                        if isinstance(n0, ast.Call) and dotted(n0.func) == 'max' and len(n0.args) == 2:
                            others = [a for a in n0.args if not (isinstance(a, ast.Constant) and a.value == 0)]
                            if len(others) == 1:
                                inner0, clamp0 = others[0], True
                        lin0 = linearize(inner0)
                        # (a `> 0` loop test makes the clamp unnecessary)
                        init_ok = lin0 is not None and lin0[1] == 0 and lin0[0] == {W: 1, R: -1}
                once = cond_in_loop(ctx, fn, lp, dec) == TRUE
                other_writes = [a for a in walk_local(lp) if a is not dec and isinstance(a, (ast.Assign, ast.AugAssign))
                                and any(isinstance(t, ast.Name) and t.id == nm for t in (a.targets if isinstance(a, ast.Assign) else [a.target]))]
                bound_ok = equivalent(have, need3) and init_ok and once and not other_writes
                msg = (f'counter form: loop test {show(have)}, initial value / decrement of `{nm}` do not amount to '
                       f'max(0, {sn}.max_workers - len({sn}.{ex.running})) starts')
    yield ctx.ob('C04.WORKER-GATE', bound_ok, fn, lp, 'start count == max(0, max_workers - running)', '' if bound_ok else msg,
                 construct='worker-bound')
    exits = early_exits(lp, allow_raise=True, allow_continue=False)
    yield ctx.ob('C04.WORKER-GATE', not exits, fn, exits[0] if exits else lp, 'start loop has no early exit',
                 '' if not exits else f'`{src(exits[0])}` leaves free worker slots unused')
    # per started future: registered in the running map (keyed by its id) and started, registration first
    proc_var = None
    for n in walk_local(lp):
        if isinstance(n, ast.Assign) and n.value is ex.construct and isinstance(n.targets[0], ast.Name):
            proc_var = n.targets[0].id
    if isinstance(lp, ast.While) and ex.fvar is None:
        for n in walk_local(lp):
            if isinstance(n, ast.Assign) and isinstance(n.targets[0], ast.Name) and isinstance(n.value, ast.Call) \
                    and dotted(n.value.func) == 'next' and n.value.args and isinstance(n.value.args[0], ast.Call) \
                    and dotted(n.value.args[0].func) == 'iter' and n.value.args[0].args \
                    and same_expr(strip_order_preserving(n.value.args[0].args[0]), ast.parse(f'{sn}.{ex.pending}', mode='eval').body):
                ex.fvar = n.targets[0].id
    store = None
    start = None
    for w in field_writes(fn):
        if w.field == ex.running and w.kind == 'item_store' and any(x is w.node for x in ast.walk(lp)):
            store = w
    for call in calls_in(lp):
        if isinstance(call.func, ast.Attribute) and call.func.attr == 'start' and isinstance(call.func.value, ast.Name) \
                and call.func.value.id == proc_var:
            start = call
    ok_store = store is not None and cond_in_loop(ctx, fn, lp, store.node) == TRUE
    key_ok = False
    if store is not None and ex.fvar:
        key_ok = same_expr(store.target.slice, ast.parse(f'{ex.fvar}.id', mode='eval').body)
        val = store.node.value if isinstance(store.node, ast.Assign) else None
        key_ok = key_ok and isinstance(val, ast.Tuple) and len(val.elts) == 2 \
            and isinstance(val.elts[0], ast.Name) and val.elts[0].id == ex.fvar \
            and isinstance(val.elts[1], ast.Name) and val.elts[1].id == proc_var
    yield ctx.ob('C04.WORKER-GATE', ok_store and key_ok, fn, store.node if store else lp,
                 'every started future registered as running under its id',
                 '' if ok_store and key_ok else f'the running map {ex.running} does not receive (future, process) under future.id for every started future')
    ok_start = start is not None and cond_in_loop(ctx, fn, lp, start) == TRUE
    yield ctx.ob('C04.WORKER-GATE', ok_start, fn, start or lp, 'every constructed process is started',
                 '' if ok_start else 'a constructed process is not started on every path')
    if store is not None and start is not None:
        ok_order = g.dominates(g.primary(store.node), g.primary(start))
        yield ctx.ob('C04.WORKER-GATE', ok_order, fn, start, 'registered before started',
                     '' if ok_order else 'the process is started before it is registered in the running map: an interrupt inside '
                     'start() leaves a running worker that is neither counted nor stoppable')


@rule('C04.DEFAULT', ['C04', 'C05'])
def max_workers_default(ctx: Ctx):
    """executor.max_workers is the constructor argument, or os.cpu_count() when that is None."""
    ex = executor(ctx)
    init = ctx.P.find_method(ex.cls, '__init__')
    if init is None:
        raise AnalysisError('executor has no __init__')
    sn = init.self_name
    g = ctx.cfg(init)
    rd = ctx.rd(init)
    ws = [w for w in field_writes(init) if w.field == 'max_workers' and w.kind == 'rebind']
    if len(ws) != 1:
        yield ctx.ob('C04.DEFAULT', False, init, init.node, 'max_workers assignment',
                     f'expected one assignment to {sn}.max_workers in __init__, found {len(ws)}', construct='assign')
        return
    w = ws[0]
    val = expand_locals(g, rd, w.node.value, g.primary(w.node))
    param = 'max_workers'
    ok = False
    cpu = ast.parse('os.cpu_count()', mode='eval').body

    def is_cpu(e):
        if same_expr(e, cpu):
            return True
        # `os.cpu_count() or <positive int>` fallback for a None count
        return isinstance(e, ast.BoolOp) and isinstance(e.op, ast.Or) and len(e.values) == 2 and same_expr(e.values[0], cpu) \
            and isinstance(e.values[1], ast.Constant) and isinstance(e.values[1].value, int) and e.values[1].value > 0

    def is_param(e):
        return isinstance(e, ast.Name) and e.id == param
    if isinstance(val, ast.IfExp):
        t = formula_of(ctx, init, val.test)
        none = formula_of(ctx, init, f'{param} is None')
        from ..formula import f_not
        if equivalent(t, none):
            ok = is_cpu(val.body) and is_param(val.orelse)
        elif equivalent(t, f_not(none)):
            ok = is_param(val.body) and is_cpu(val.orelse)
    elif isinstance(val, ast.BoolOp) and isinstance(val.op, ast.Or) and len(val.values) == 2:
        ok = is_param(val.values[0]) and is_cpu(val.values[1])
    elif is_param(val):
        # `if max_workers is None: max_workers = os.cpu_count()` before the assignment
        defs = rd.reaching(g.primary(w.node), param)
        vals = []
        for d in defs:
            if d == g.entry:
                vals.append('param')
            else:
                dv = rd.def_value(d, param)
                c = cond_from_entry(ctx, init, g.node(d).ast)
                vals.append('cpu' if dv and dv[0] == 'value' and is_cpu(dv[1])
                            and equivalent(c, formula_of(ctx, init, f'{param} is None')) else 'other')
        ok = sorted(vals) == ['cpu', 'param']
    yield ctx.ob('C04.DEFAULT', ok, init, w.node, 'max_workers = argument, or os.cpu_count() when None',
                 '' if ok else f'{sn}.max_workers is `{src(val)}`; the default must be exactly os.cpu_count() and an explicit '
                 'value must be used as given')


def _future_var_for_key(fn: FuncInfo, key: ast.AST, region: ast.AST, running: str, sn: str) -> Optional[str]:
    """The future variable an entry key refers to: `f.id` -> f; or `k` when `f, _ = self.R[k]`."""
    if isinstance(key, ast.Attribute) and key.attr == 'id' and isinstance(key.value, ast.Name):
        return key.value.id
    for n in walk_local(region):
        if isinstance(n, ast.Assign) and isinstance(n.value, ast.Subscript) \
                and same_expr(n.value.value, ast.parse(f'{sn}.{running}', mode='eval').body) \
                and same_expr(n.value.slice, key):
            t = n.targets[0]
            if isinstance(t, ast.Tuple) and t.elts and isinstance(t.elts[0], ast.Name):
                return t.elts[0].id
    return None


def _terminal_calls(region: ast.AST, fvar: str) -> list[ast.Call]:
    return [c for c in calls_in(region) if isinstance(c.func, ast.Attribute)
            and c.func.attr in ('set_result', 'set_exception', 'cancel')
            and isinstance(c.func.value, ast.Name) and c.func.value.id == fvar]


def _done_edges(ctx: Ctx, fn: FuncInfo, fvar: str) -> list[tuple[int, int]]:
    """CFG edges on which `<fvar>.done` is known true."""
    g = ctx.cfg(fn)
    fb = ctx.fb(fn)
    from ..formula import f_not
    done = fb.build(ast.parse(f'{fvar}.done', mode='eval').body)
    out = []
    for n in g.nodes:
        if n.kind != 'test':
            continue
        f = fb.build(n.ast)
        for (t, lab) in g.succ[n.id]:
            if lab == 'true' and implies(f, done):
                out.append((n.id, t))
            if lab == 'false' and implies(f_not(f), done):
                out.append((n.id, t))
    return out


@rule('C11.FUTURE-PAIRING', ['C11', 'C05', 'C04', 'C10', 'C17'])
def future_pairing(ctx: Ctx):
    """Typestate pairing in the executor: an entry leaves the running map only together with a terminal
    transition of its future (or when the future is already done), and every terminal transition of a
    tracked future removes its entry (keyed by that very future) - no leaked slot, no orphaned future."""
    ex = executor(ctx)
    n_rem = 0
    for m in ex.cls.methods.values():
        for fn in [m] + list(m.nested.values()):
            sn = 'self' if fn.parent is not None else fn.self_name
            g = ctx.cfg(fn)
            writes = [w for w in field_writes(fn, sn) if w.field in (ex.running, ex.pending)]
            removals = [w for w in writes if w.kind in ('item_delete', 'mutcall:pop')]
            for w in removals:
                key = w.target.slice if w.kind == 'item_delete' else (w.node.args[0] if w.node.args else None)
                mp = w.field
                rnode = g.primary(w.node)
                lp = roles.enclosing_loop_of(fn.node, w.node)
                region_root = lp if lp is not None else fn.node
                if mp == ex.running:
                    n_rem += 1
                    fv = _future_var_for_key(fn, key, region_root, ex.running, sn)
                    if fv is None:
                        yield ctx.ob('C11.FUTURE-PAIRING', False, fn, w.node, f'removal from {mp}',
                                     f'`{src(w.node)}` removes a running entry under key `{src(key)}` that is not the id of a '
                                     'tracked future (future.id): the wrong entry (or none) is removed')
                        continue
                    terms = [g.primary(c) for c in _terminal_calls(region_root, fv)]
                    if lp is not None:
                        header, body = loop_region(ctx, fn, lp)
                        exits = [header]
                    else:
                        header, body, exits = g.entry, g.live_nodes(), [g.exit]
                    before = any(g.dominates(t, rnode) and t in body for t in terms)
                    after = not (g.reachable([rnode], avoid=terms, exc=False, include_starts=False,
                                             avoid_edges=_done_edges(ctx, fn, fv)) & set(exits))
                    ok = before or after
                    yield ctx.ob('C11.FUTURE-PAIRING', ok, fn, w.node, f'removal of {fv} from {mp} paired with a terminal transition',
                                 '' if ok else f'`{src(w.node)}` can leave future `{fv}` neither running nor done: '
                                 'pending_task_count() would stay positive forever')
                else:
                    # pending map: followed by insertion into running + start, or by cancel
                    fv = key.id if isinstance(key, ast.Name) else None
                    if fv is None:
                        yield ctx.ob('C11.FUTURE-PAIRING', False, fn, w.node, f'removal from {mp}',
                                     f'`{src(w.node)}`: removal key is not a future variable')
                        continue
                    terms = [g.primary(c) for c in _terminal_calls(region_root, fv)]
                    stores = [g.primary(x.node) for x in writes if x.field == ex.running and x.kind == 'item_store']
                    starts = [g.primary(c) for c in calls_in(region_root) if isinstance(c.func, ast.Attribute) and c.func.attr == 'start']
                    if lp is not None:
                        header, body = loop_region(ctx, fn, lp)
                        exits = [header]
                    else:
                        header, body, exits = g.entry, g.live_nodes(), [g.exit]
                    via_cancel = any(g.dominates(t, rnode) for t in terms) or \
                        not (g.reachable([rnode], avoid=terms, exc=False, include_starts=False) & set(exits))
                    via_start = bool(stores) and bool(starts) and \
                        not (g.reachable([rnode], avoid=stores, exc=False, include_starts=False) & set(exits)) and \
                        not (g.reachable([rnode], avoid=starts, exc=False, include_starts=False) & set(exits))
                    ok = (via_cancel and terms) or via_start
                    yield ctx.ob('C11.FUTURE-PAIRING', bool(ok), fn, w.node, f'removal of {fv} from {mp} followed by start or cancel',
                                 '' if ok else f'`{src(w.node)}` drops a pending future that is then neither started nor cancelled')
            # reverse direction: terminal transitions must free the entry
            for call in calls_in(fn.node):
                if not (isinstance(call.func, ast.Attribute) and call.func.attr in ('set_result', 'set_exception', 'cancel')
                        and isinstance(call.func.value, ast.Name)):
                    continue
                fv = call.func.value.id
                lp = roles.enclosing_loop_of(fn.node, call)
                region_root = lp if lp is not None else fn.node
                tnode = g.primary(call)
                rem_nodes = []
                for w in removals:
                    key = w.target.slice if w.kind == 'item_delete' else (w.node.args[0] if w.node.args else None)
                    if not any(x is w.node for x in ast.walk(region_root)):
                        continue
                    if w.field == ex.running and _future_var_for_key(fn, key, region_root, ex.running, sn) == fv:
                        rem_nodes.append(g.primary(w.node))
                    if w.field == ex.pending and isinstance(key, ast.Name) and key.id == fv:
                        rem_nodes.append(g.primary(w.node))
                if lp is not None:
                    header, body = loop_region(ctx, fn, lp)
                    exits = [header]
                else:
                    exits = [g.exit]
                before = any(g.dominates(r, tnode) for r in rem_nodes)
                after = bool(rem_nodes) and not (g.reachable([tnode], avoid=rem_nodes, exc=False, include_starts=False) & set(exits))
                ok = before or after
                yield ctx.ob('C11.FUTURE-PAIRING', ok, fn, call, f'{fv}.{call.func.attr}() frees its entry',
                             '' if ok else f'`{src(call)}` makes future `{fv}` terminal but its entry (keyed by {fv} / {fv}.id) is not '
                             f'removed from {ex.pending}/{ex.running} on the same path: the slot leaks or a cancelled future is started later')
    if n_rem < 1:
        raise AnalysisError('no removal from the running map found in the executor')


@rule('C11.DEAD-DETECT', ['C11', 'C01', 'C10', 'C05', 'C04'])
def dead_detect(ctx: Ctx):
    """Liveness is sampled (as `not process.is_alive()`) over all running entries before the result
    queue is drained, and every sampled-dead future that is not done afterwards fails with TaskDiedError."""
    ex = executor(ctx)
    # the consume function: executor method containing the Thread creation or the queue get
    cons = None
    for m in ex.cls.methods.values():
        for call in calls_in(m.node):
            if isinstance(call.func, ast.Attribute) and call.func.attr == 'is_alive':
                cons = m
        for nested in m.nested.values():
            pass
    if cons is None:
        yield ctx.ob('C11.DEAD-DETECT', False, ex.topup, ex.topup.node, 'liveness sampling',
                     'no executor method samples process.is_alive(): a killed worker is never detected', construct='no-sampling')
        return
    fn = cons
    sn = fn.self_name
    g = ctx.cfg(fn)
    # sampling: comprehension or loop over self.R.values() filtered by `not p.is_alive()`
    sample = None
    for n in walk_local(fn.node):
        if isinstance(n, (ast.ListComp, ast.SetComp)) and len(n.generators) == 1:
            gen = n.generators[0]
            it = gen.iter
            if isinstance(it, ast.Call) and isinstance(it.func, ast.Attribute) and it.func.attr in ('values', 'items') \
                    and same_expr(it.func.value, ast.parse(f'{sn}.{ex.running}', mode='eval').body):
                sample = (n, gen)
    if sample is None:
        yield ctx.ob('C11.DEAD-DETECT', False, fn, fn.node, 'liveness sampling over all running entries',
                     f'no comprehension over {sn}.{ex.running}.values() sampling process liveness', construct='no-sample-comp')
        return
    comp, gen = sample
    pvar = None
    if isinstance(gen.target, ast.Tuple) and len(gen.target.elts) == 2 and isinstance(gen.target.elts[1], ast.Name):
        pvar = gen.target.elts[1].id
    okf = False
    have = None
    if pvar and len(gen.ifs) == 1:
        have = formula_of(ctx, fn, gen.ifs[0])
        okf = equivalent(have, formula_of(ctx, fn, f'not {pvar}.is_alive()'))
    yield ctx.ob('C11.DEAD-DETECT', okf, fn, comp, 'dead == not process.is_alive()',
                 '' if okf else f'the dead-process predicate is `{src(gen.ifs[0]) if gen.ifs else "<none>"}`, expected '
                 f'`not {pvar}.is_alive()`: some dead workers (e.g. exit status 0 without a result) are never detected')
    snode = g.primary(comp)
    # drain start: Thread(...).start() or a direct queue get in this function
    drains = []
    for call in calls_in(fn.node):
        if isinstance(call.func, ast.Attribute) and call.func.attr in ('start', 'get', 'get_nowait', 'join') \
                and not any(x is call for x in ast.walk(comp)):
            drains.append(call)
    for nm, nested in fn.nested.items():
        for call in calls_in(fn.node):
            if isinstance(call.func, ast.Name) and call.func.id == nm:
                drains.append(call)
    try:
        _cons, _host, _thread = queue_consumer(ctx)
        if _host is not None and _host.qualname == fn.qualname and _thread is not None:
            drains.append(_thread)
    except AnalysisError:
        pass
    okd = bool(drains) and all(g.dominates(snode, g.primary(d)) for d in drains)
    yield ctx.ob('C11.DEAD-DETECT', okd, fn, comp, 'liveness sampled before the queue is drained',
                 '' if okd else 'process liveness is sampled after (or not before) the result queue is drained: a worker that '
                 'delivers its result and exits in between is reported dead although its result is in the queue')
    # marking loop
    sname = None
    for n in walk_local(fn.node):
        if isinstance(n, ast.Assign) and n.value is comp and isinstance(n.targets[0], ast.Name):
            sname = n.targets[0].id
    marks = [lp for lp in walk_local(fn.node) if isinstance(lp, ast.For) and isinstance(lp.iter, ast.Name) and lp.iter.id == sname
             and isinstance(lp.target, ast.Name)]
    if not marks:
        yield ctx.ob('C11.DEAD-DETECT', False, fn, fn.node, 'marking of dead futures',
                     'the sampled dead futures are never failed', construct='no-marking')
        return
    lp = marks[0]
    fv = lp.target.id
    sets = [c for c in calls_in(lp) if isinstance(c.func, ast.Attribute) and c.func.attr == 'set_exception'
            and isinstance(c.func.value, ast.Name) and c.func.value.id == fv]
    okm = False
    if sets:
        c = cond_in_loop(ctx, fn, lp, sets[0])
        need = formula_of(ctx, fn, f'not {fv}.done')
        arg = sets[0].args[0] if sets[0].args else None
        died = isinstance(arg, ast.Call) and any(q.endswith('TaskDiedError') for q in ctx.P.resolve_call(arg, fn))
        okm = equivalent(c, need) and died and not early_exits(lp, allow_raise=False, allow_continue=True)
    drains_nodes = [g.primary(d) for d in drains]
    after_drain = all(g.dominates(dn, g.primary(lp)) for dn in drains_nodes) if drains_nodes else False
    yield ctx.ob('C11.DEAD-DETECT', okm and after_drain, fn, sets[0] if sets else lp,
                 'every dead, not-done future gets TaskDiedError after the drain',
                 '' if okm and after_drain else 'a future whose process died without delivering a result is not (always) failed with TaskDiedError')
    # the marking is not optional: every normal path of the round reaches it (a round that returns early keeps the dead
    # worker's slot occupied and its future pending for as long as other results keep arriving)
    every_round = g.on_all_paths_to_exit(g.entry, g.nodes_of(lp) or [g.primary(lp)], exc=False)
    skip = [n for n in walk_local(fn.node) if isinstance(n, ast.Return)]
    yield ctx.ob('C11.DEAD-DETECT', every_round, fn, skip[0] if (skip and not every_round) else lp,
                 'the marking is reached on every normal path of the round',
                 '' if every_round else 'a normal path through the round skips the marking of dead workers: a dead worker keeps its '
                 'slot (and its task stays pending) while other results keep arriving', construct='every-round')


@rule('C11.DRAIN-BOUNDED', ['C11'])
def drain_bounded(ctx: Ctx):
    """The result-queue drain loop ends on queue.Empty and does not wait again after the first item."""
    ex = executor(ctx)
    found = False
    for m in ex.cls.methods.values():
        for fn in [m] + list(m.nested.values()):
            for lp in [n for n in walk_local(fn.node) if isinstance(n, ast.While)]:
                gets = [c for c in calls_in(lp) if isinstance(c.func, ast.Attribute) and c.func.attr == 'get'
                        and 'queue' in src(c.func.value).lower()]
                if not gets:
                    continue
                found = True
                get = gets[0]
                # enclosing try with an Empty handler that leaves the loop
                ok_exit = False
                for t in [n for n in walk_local(lp) if isinstance(n, ast.Try)]:
                    if any(x is get for b in t.body for x in ast.walk(b)):
                        for h in t.handlers:
                            hn = dotted(h.type) if h.type is not None else None
                            if hn and hn.split('.')[-1] == 'Empty' and any(isinstance(s, (ast.Break, ast.Return)) for s in h.body):
                                ok_exit = True
                yield ctx.ob('C11.DRAIN-BOUNDED', ok_exit, fn, get, 'drain loop leaves on queue.Empty',
                             '' if ok_exit else 'the drain loop does not exit when the queue is empty')
                tmo = kwarg(get, 'timeout', 1)
                ok_t = False
                g = ctx.cfg(fn)
                header, body = loop_region(ctx, fn, lp)
                gn = g.primary(get)

                def const_assigns(name: str, value) -> list[int]:
                    return [g.primary(n) for n in walk_local(lp) if isinstance(n, ast.Assign) and isinstance(n.targets[0], ast.Name)
                            and n.targets[0].id == name and isinstance(n.value, ast.Constant) and n.value.value is value
                            or (isinstance(n, ast.Assign) and isinstance(n.targets[0], ast.Name) and n.targets[0].id == name
                                and isinstance(n.value, ast.Constant) and n.value.value == value and not isinstance(n.value.value, bool)
                                and not isinstance(value, bool))]

                def set_after_get(name: str, value) -> bool:
                    """every normal path from a successful get back to the loop head assigns `name = value`"""
                    zs = const_assigns(name, value)
                    return bool(zs) and g.must_pass(gn, zs, [header], exc=False)

                if isinstance(tmo, ast.Name):
                    if set_after_get(tmo.id, 0):
                        ok_t = True
                    else:
                        # flag form: `t = full if first else 0` recomputed in every iteration, `first = False` after a get
                        defs = [n for n in walk_local(lp) if isinstance(n, ast.Assign) and isinstance(n.targets[0], ast.Name) and n.targets[0].id == tmo.id]
                        if defs and all(isinstance(d.value, ast.IfExp) for d in defs):
                            oks = []
                            for d in defs:
                                v = d.value
                                flag, when = None, None
                                t = v.test
                                neg = False
                                if isinstance(t, ast.UnaryOp) and isinstance(t.op, ast.Not):
                                    t, neg = t.operand, True
                                if isinstance(t, ast.Name):
                                    zero_in_else = isinstance(v.orelse, ast.Constant) and v.orelse.value == 0 and not isinstance(v.orelse.value, bool)
                                    zero_in_body = isinstance(v.body, ast.Constant) and v.body.value == 0 and not isinstance(v.body.value, bool)
                                    if zero_in_else and not zero_in_body:
                                        flag, when = t.id, (True if neg else False)     # zero when the test is false
                                    elif zero_in_body and not zero_in_else:
                                        flag, when = t.id, (False if neg else True)
                                oks.append(flag is not None and set_after_get(flag, when)
                                           and g.must_pass(header, [g.primary(d)], [gn], exc=False))
                            ok_t = all(oks)
                elif isinstance(tmo, ast.Constant) and tmo.value == 0:
                    ok_t = True
                elif isinstance(tmo, ast.IfExp) and isinstance(tmo.test, ast.Name) and isinstance(tmo.orelse, ast.Constant) and tmo.orelse.value == 0:
                    ok_t = set_after_get(tmo.test.id, False)
                yield ctx.ob('C11.DRAIN-BOUNDED', ok_t, fn, get, 'no waiting after the first item',
                             '' if ok_t else 'after an item was received the next get() may block for the full timeout again')
    if not found:
        raise AnalysisError('no result-queue drain loop found in the executor')


@rule('C05.TOPUP', ['C05', 'C11', 'C10'])
def topup(ctx: Ctx):
    """Pending futures are started at submit time and again at wait time after finished work freed its
    slots; the runner reaches the executor on every normal path."""
    ex = executor(ctx)
    tq = ex.topup.qualname
    for name in ('submit', 'wait'):
        m = ctx.P.find_method(ex.cls, name)
        if m is None:
            raise AnalysisError(f'executor has no {name} method')
        g = ctx.cfg(m)
        calls = [c for c in calls_in(m.node) if tq in ctx.P.resolve_call(c, m)]
        if not calls:
            yield ctx.ob('C05.TOPUP', False, m, m.node, f'{name}() tops up',
                         f'executor.{name}() never calls {ex.topup.name}(): free workers stay idle until the next poll', construct=f'no-topup-{name}')
            continue
        cn = [g.primary(c) for c in calls]
        ok = g.must_pass(g.entry, cn, [g.exit], exc=False)
        yield ctx.ob('C05.TOPUP', ok, m, calls[0], f'{name}() tops up on every normal path',
                     '' if ok else f'executor.{name}() can return without calling {ex.topup.name}()')
        if name == 'submit':
            stores = [g.primary(w.node) for w in field_writes(m) if w.field == ex.pending and w.kind == 'item_store']
            ok2 = bool(stores) and all(any(g.dominates(s, c) for s in stores) for c in cn)
            yield ctx.ob('C05.TOPUP', ok2, m, calls[0], 'top-up after the new future was enqueued',
                         '' if ok2 else 'the top-up runs before the submitted future is enqueued')
        else:
            cons = [c for c in calls_in(m.node) if any(q.startswith(ex.cls.qualname) and q != tq and 'consume' in q
                                                       for q in ctx.P.resolve_call(c, m))]
            ok2 = bool(cons) and all(g.dominates(g.primary(cons[0]), c) for c in cn)
            yield ctx.ob('C05.TOPUP', ok2, m, calls[0], 'top-up after completed results were consumed (slots freed)',
                         '' if ok2 else 'the top-up at wait time runs before finished work has freed its slots')
    # runner -> executor
    pr = ctx.P.cls('runners.process.ProcessRunner')
    for (mname, target) in (('wait', 'wait'),):
        m = ctx.P.find_method(pr, mname)
        g = ctx.cfg(m)
        tgt = ctx.P.find_method(ex.cls, target)
        calls = [c for c in calls_in(m.node) if tgt.qualname in ctx.P.resolve_call(c, m)]
        ok = bool(calls) and g.must_pass(g.entry, [g.primary(c) for c in calls], [g.exit], exc=False)
        yield ctx.ob('C05.TOPUP', ok, m, calls[0] if calls else m.node, f'ProcessRunner.{mname} reaches executor.{target}',
                     '' if ok else f'ProcessRunner.{mname} can return without executor.{target}()')
    subm = ctx.P.find_method(ex.cls, 'submit')
    for f in ctx.P.implementations(pr.qualname, '_submit_task'):
        g = ctx.cfg(f)
        calls = [c for c in calls_in(f.node) if subm.qualname in ctx.P.resolve_call(c, f)]
        ok = bool(calls) and g.must_pass(g.entry, [g.primary(c) for c in calls], [g.exit], exc=False)
        yield ctx.ob('C05.TOPUP', ok, f, calls[0] if calls else f.node, f'{f.short} reaches executor.submit',
                     '' if ok else f'{f.short} can return without submitting to the executor')
    st = ctx.P.find_method(pr, 'submit_task')
    g = ctx.cfg(st)
    calls = [c for c in calls_in(st.node) if any(q.endswith('._submit_task') for q in ctx.P.resolve_call(c, st))]
    ok = bool(calls) and g.must_pass(g.entry, [g.primary(c) for c in calls], [g.exit], exc=False)
    yield ctx.ob('C05.TOPUP', ok, st, calls[0] if calls else st.node, 'ProcessRunner.submit_task reaches _submit_task',
                 '' if ok else 'ProcessRunner.submit_task can return without submitting')


@rule('C14.CANCEL-STOP-COMPLETE', ['C14', 'C13'])
def cancel_stop_complete(ctx: Ctx):
    """executor.cancel() cancels and forgets every pending future; executor.stop() terminates, cancels
    and forgets every running entry (complete loops over a snapshot of the whole map)."""
    ex = executor(ctx)
    for (mname, field, needs) in (('cancel', ex.pending, ['cancel']), ('stop', ex.running, ['terminate', 'cancel'])):
        m = ctx.P.find_method(ex.cls, mname)
        if m is None:
            raise AnalysisError(f'executor has no {mname}()')
        sn = m.self_name
        g = ctx.cfg(m)
        rd = ctx.rd(m)
        loops = [n for n in walk_local(m.node) if isinstance(n, ast.For)]
        lp = None
        for cand in loops:
            itn = [n for n in g.nodes_containing(cand.iter) if g.node(n).kind == 'iter_eval']
            full = expand_locals(g, rd, cand.iter, itn[0] if itn else g.primary(cand))
            base = strip_order_preserving(full)
            if isinstance(base, ast.Call) and isinstance(base.func, ast.Attribute) and base.func.attr in ('values', 'items', 'keys'):
                base = base.func.value
            if same_expr(base, ast.parse(f'{sn}.{field}', mode='eval').body):
                lp = cand
        if lp is None:
            yield ctx.ob('C14.CANCEL-STOP-COMPLETE', False, m, m.node, f'{mname}() loops over all of {field}',
                         f'executor.{mname}() has no loop over the whole {field} map', construct=f'no-loop-{mname}')
            continue
        exits = early_exits(lp, allow_raise=False, allow_continue=False)
        ok = not exits and cond_from_entry(ctx, m, lp) == TRUE
        yield ctx.ob('C14.CANCEL-STOP-COMPLETE', ok, m, lp, f'{mname}() loop complete and unconditional',
                     '' if ok else f'executor.{mname}() may skip entries ({src(exits[0]) if exits else "conditional loop"})')
        for need in needs:
            cs = [c for c in calls_in(lp) if isinstance(c.func, ast.Attribute) and c.func.attr == need]
            okn = bool(cs) and cond_in_loop(ctx, m, lp, cs[0]) == TRUE
            yield ctx.ob('C14.CANCEL-STOP-COMPLETE', okn, m, cs[0] if cs else lp, f'{mname}(): .{need}() for every entry',
                         '' if okn else f'executor.{mname}() does not call .{need}() for every entry')
        rem = [w for w in field_writes(m) if w.field == field and w.kind in ('item_delete', 'mutcall:pop')
               and any(x is w.node for x in ast.walk(lp))]
        okr = bool(rem) and cond_in_loop(ctx, m, lp, rem[0].node) == TRUE
        cleared = any(w.field == field and w.kind in ('mutcall:clear', 'rebind') for w in field_writes(m))
        yield ctx.ob('C14.CANCEL-STOP-COMPLETE', okr or cleared, m, rem[0].node if rem else lp,
                     f'{mname}(): every entry removed from {field}',
                     '' if okr or cleared else f'executor.{mname}() leaves entries in {field}: '
                     + ('cancelled futures are started by the next top-up' if mname == 'cancel' else 'stopped entries stay counted as running'))


BLOCKING_CALLS = {'join', 'wait', 'sleep', 'communicate', 'acquire', 'result'}


@rule('C14.STOP-DOES-NOT-WAIT', ['C14', 'C11'])
def stop_does_not_wait(ctx: Ctx):
    """cancel() and stop() only signal and forget: neither the executor's nor the runners' cancel / stop joins, waits for or
    sleeps on anything.  The second Ctrl-C must end run_tasks at once, whatever the task processes do with SIGTERM."""
    ex = executor(ctx)
    fns = []
    for name in ('cancel', 'stop'):
        m = ctx.P.find_method(ex.cls, name)
        if m is not None:
            fns.append(m)
        for f in roles.impls(ctx, roles.RUNNER, name):
            fns.append(f)
    seen = set()
    n = 0
    for f0 in fns:
        for f in ctx.P.closure([f0], include_nested=True):
            if f.qualname in seen or not f.module.name.startswith(f'{PKG}.runners'):
                continue
            seen.add(f.qualname)
            n += 1
            bad = [c for c in calls_in(f.node) if (isinstance(c.func, ast.Attribute) and c.func.attr in BLOCKING_CALLS
                                                   and not (c.func.attr == 'result' and False))
                   or (dotted(c.func) or '') in ('time.sleep', 'sleep')]
            bad = [c for c in bad if not (isinstance(c.func, ast.Attribute) and c.func.attr == 'result')]
            yield ctx.ob('C14.STOP-DOES-NOT-WAIT', not bad, f, bad[0] if bad else f.node, f'{f.short} does not block',
                         '' if not bad else f'`{src(bad[0])[:60]}` makes cancel/stop wait: after the second Ctrl-C run_tasks must return at once, not after '
                         'every worker has honoured (or ignored) SIGTERM')
    if n < 2:
        raise AnalysisError('cancel/stop implementations not found')


def queue_consumer(ctx: Ctx):
    """(consumer function, thread-creating host function, Thread(...) call): the executor function (method or
    nested closure) that takes items off the result queue, and the function that runs it as a Thread target."""
    ex = executor(ctx)
    cons = None
    for m in ex.cls.methods.values():
        for f in [m] + list(m.nested.values()):
            if any(isinstance(c.func, ast.Attribute) and c.func.attr in ('get', 'get_nowait') and 'result_queue' in src(c.func.value)
                   for c in calls_in(f.node)):
                cons = f
    if cons is None:
        raise AnalysisError('no executor function takes items off the result queue')
    host = None
    thread = None
    for m in ex.cls.methods.values():
        for c in calls_in(m.node):
            if dotted(c.func) in ('Thread', 'threading.Thread'):
                t = kwarg(c, 'target', 1)
                if (isinstance(t, ast.Name) and t.id == cons.name and cons.parent is not None and cons.parent.qualname == m.qualname) or \
                        (isinstance(t, ast.Attribute) and t.attr == cons.name and cons.parent is None):
                    host, thread = m, c
    return cons, host, thread


@rule('C13.WORKER-NOT-DAEMON', ['C13', 'C12', 'C06'])
def worker_not_daemon(ctx: Ctx):
    """Task processes are not daemonic: a daemonic child is terminated by multiprocessing's exit handler as soon as the
    main process ends (a raised LabError, the end of the script), i.e. possibly in the middle of writing its cache entry;
    a non-daemonic one is waited for."""
    procs = [c for c in creations(ctx) if c.kind == 'process']
    if not procs:
        raise AnalysisError('no process construction found in the package')
    for c in procs:
        d = kwarg(c.call, 'daemon', None)
        ok = d is None or (isinstance(d, ast.Constant) and d.value in (False, None))
        yield ctx.ob('C13.WORKER-NOT-DAEMON', ok, c.fn, c.call, f'{c.name}(...) is not daemonic',
                     '' if ok else f'the task process is created with daemon={src(d)}: it is killed mid-save when the main process exits')
        # no later `process.daemon = ...`
        for n in walk_local(c.fn.node):
            if isinstance(n, ast.Assign) and any(isinstance(t, ast.Attribute) and t.attr == 'daemon' for t in n.targets) \
                    and not (isinstance(n.value, ast.Constant) and n.value.value is False):
                yield ctx.ob('C13.WORKER-NOT-DAEMON', False, c.fn, n, 'no daemon flag set on the task process',
                             f'`{src(n)}` makes the task process daemonic: it is killed mid-save when the main process exits')


def _queue_receiver(call: ast.Call) -> bool:
    return isinstance(call.func, ast.Attribute) and 'queue' in src(call.func.value).lower()


def _nonblocking_get(call: ast.Call) -> bool:
    if call.func.attr == 'get_nowait':
        return True
    block = kwarg(call, 'block', 0)
    tmo = kwarg(call, 'timeout', 1)
    if isinstance(block, ast.Constant) and block.value is False:
        return True
    return isinstance(tmo, ast.Constant) and tmo.value == 0 and not isinstance(tmo.value, bool)


@rule('C05.POLLS-NONBLOCKING', ['C05', 'C11', 'C19', 'C10'])
def polls_nonblocking(ctx: Ctx):
    """On the coordinator's thread only one place may wait: the executor's timed get on the result queue.  Every other
    queue poll (log records, monitor events) is non-blocking - a drain loop that waits for `the next record` keeps the
    coordinator away from submitting ready tasks for as long as some task keeps producing records."""
    ex = executor(ctx)
    n = 0
    for fn in ctx.P.all_functions():
        if not fn.module.name.startswith(f'{PKG}.runners') and not fn.module.name.startswith(f'{PKG}.lab') and not fn.module.name.startswith(f'{PKG}.monitor'):
            continue
        for call in calls_in(fn.node):
            if not (_queue_receiver(call) and call.func.attr in ('get', 'get_nowait')):
                continue
            n += 1
            sanctioned = fn.qualname.startswith(ex.cls.qualname) and 'result' in src(call.func.value).lower()
            ok = sanctioned or _nonblocking_get(call)
            yield ctx.ob('C05.POLLS-NONBLOCKING', ok, fn, call, f'`{src(call.func)}` ' + ('is the timed wait of the executor' if sanctioned else 'does not block'),
                         '' if ok else f'`{src(call)[:70]}` can block the coordinator although work may be ready to start (only the executor\'s result-queue '
                         'get may wait)')
    if n < 3:
        raise AnalysisError(f'only {n} queue polls found (expected the result, log and monitor queues)')


@rule('C11.QUEUES-UNBOUNDED', ['C11', 'C19', 'C10'])
def queues_unbounded(ctx: Ctx):
    """The queues task processes write to (results, log records, monitor events) are unbounded: a worker's blocking put()
    on a full queue that the coordinator only drains opportunistically (the monitor queue is not drained at all when the
    display is off) never returns, and a live-but-stuck worker is never declared dead."""
    n = 0
    for fn in ctx.P.all_functions():
        if not fn.module.name.startswith(f'{PKG}.runners'):
            continue
        for call in calls_in(fn.node):
            if not (isinstance(call.func, ast.Attribute) and call.func.attr in ('Queue', 'SimpleQueue', 'JoinableQueue')):
                continue
            n += 1
            size = kwarg(call, 'maxsize', 0)
            v = None
            if size is None:
                ok = True
            else:
                if isinstance(size, ast.Name) and size.id in fn.module.consts:
                    size = fn.module.consts[size.id]
                try:
                    v = ast.literal_eval(size)
                    ok = isinstance(v, int) and v <= 0
                except Exception:
                    ok = False
            yield ctx.ob('C11.QUEUES-UNBOUNDED', ok, fn, call, f'`{src(call)[:50]}` is unbounded',
                         '' if ok else f'`{src(call)[:60]}` is bounded: a task process blocks in put() once it is full')
    if n < 3:
        raise AnalysisError(f'only {n} queue constructions found in the runners (expected result, log and monitor queues)')


REAPING = {'wait', 'kill', 'terminate', 'suspend', 'resume', 'send_signal'}


@rule('C11.WHO-MAY-REAP', ['C11', 'C10'])
def who_may_reap(ctx: Ctx):
    """Only the executor touches the life cycle of task processes.  The monitor inspects them read-only: reaping a dead
    child behind multiprocessing's back (psutil `wait`, os.waitpid) makes Process.is_alive() report it alive for ever, so
    the dead-worker detection never fires; signalling it kills a task."""
    ex = executor(ctx)
    n = 0
    for fn in ctx.P.all_functions():
        n += 1
        in_executor = fn.qualname.startswith(ex.cls.qualname)
        monitor_side = fn.qualname.startswith(f'{PKG}.runners.process.ProcessMonitor') or fn.module.name == f'{PKG}.monitor'
        for call in calls_in(fn.node):
            d = dotted(call.func) or ''
            r = ctx.P.resolve_dotted(fn.module, d) if d and not ctx.P._is_local_name(d.split('.')[0], fn) else None
            if r in ('os.waitpid', 'os.wait', 'os.wait3', 'os.wait4', 'os.waitid', 'os.kill', 'os.killpg') and not in_executor:
                yield ctx.ob('C11.WHO-MAY-REAP', False, fn, call, f'{r} outside the executor',
                             f'`{src(call)[:60]}` reaps or signals a child process outside the executor')
            elif monitor_side and isinstance(call.func, ast.Attribute) and call.func.attr in REAPING \
                    and not any(w in src(call.func.value).lower() for w in ('thread', 'event', 'queue', 'lock', 'cond')):
                yield ctx.ob('C11.WHO-MAY-REAP', False, fn, call, f'monitor calls .{call.func.attr}() on a process handle',
                             f'`{src(call)[:60]}`: the monitor must only inspect task processes; waiting on one reaps it (is_alive() then stays '
                             'True and its death is never detected), signalling one kills a task')
    yield ctx.ob('C11.WHO-MAY-REAP', True, None, None, f'{n} functions scanned', construct='scan', path='labtech/')
