"""Scheduler rules over lab.py: TaskState (construction / start / completion / ready scan) and the
coordinator's main loop and consumer loop.  Serves C01, C02, C03, C04, C05, C10, C11."""
from __future__ import annotations

import ast
from dataclasses import dataclass
from typing import Optional

from .. import roles
from ..dataflow import expand_locals
from ..engine import (Ctx, calls_in, cond_from_entry, cond_in_loop, early_exits, field_writes, formula_of, kwarg,
                      loop_region, rule, same_expr, strip_order_preserving)
from ..formula import (FALSE, TRUE, canon, counterexample, equivalent, f_and, f_not, f_or, implies, linearize, show)
from ..model import PKG, AnalysisError, FuncInfo, dotted, src, walk_local


# ----------------------------------------------------------------------------------------
# the ready scan


@dataclass
class ReadyScan:
    fn: FuncInfo
    loop: ast.For
    tvar: str
    ready_name: str
    append: ast.Call
    cond: object              # exact path condition of the append within one iteration
    counter: Optional[str]
    incr: Optional[ast.AugAssign]


def ready_scan(ctx: Ctx) -> ReadyScan:
    store = ctx.__dict__.setdefault('_roles', {})
    if 'ready_scan' in store:
        return store['ready_scan']
    st = roles.state(ctx)
    sf = roles.state_fields(ctx)
    fn = st.ready_method
    sn = fn.self_name
    rets = [n for n in walk_local(fn.node) if isinstance(n, ast.Return) and n.value is not None]
    names = {n.value.id for n in rets if isinstance(n.value, ast.Name)}
    if len(rets) != 1 or len(names) != 1:
        raise AnalysisError(f'{fn.where()}: the ready method must return one list on a single normal exit')
    ready = next(iter(names))
    loops = [n for n in walk_local(fn.node) if isinstance(n, ast.For) and isinstance(n.target, ast.Name)
             and any(isinstance(c.func, ast.Attribute) and c.func.attr == 'append' and isinstance(c.func.value, ast.Name)
                     and c.func.value.id == ready for c in calls_in(n))]
    if len(loops) != 1:
        raise AnalysisError(f'{fn.where()}: expected one loop appending to the returned ready list `{ready}`, '
                            f'found {len(loops)} (the ready scan is not in a recognised form)')
    lp = loops[0]
    tv = lp.target.id
    appends = [c for c in calls_in(lp) if isinstance(c.func, ast.Attribute) and c.func.attr == 'append'
               and isinstance(c.func.value, ast.Name) and c.func.value.id == ready]
    if len(appends) != 1:
        raise AnalysisError(f'{fn.where(lp)}: expected exactly one append to `{ready}` in the scan loop')
    ap = appends[0]
    cond = cond_in_loop(ctx, fn, lp, ap)
    counter = None
    incr = None
    for n in walk_local(lp):
        if isinstance(n, ast.AugAssign) and isinstance(n.op, ast.Add) and isinstance(n.target, ast.Subscript) \
                and isinstance(n.target.value, ast.Name) and isinstance(n.target.slice, ast.Call) \
                and dotted(n.target.slice.func) == 'type' and n.target.slice.args \
                and isinstance(n.target.slice.args[0], ast.Name) and n.target.slice.args[0].id == tv:
            counter = n.target.value.id
            incr = n
    rs = ReadyScan(fn, lp, tv, ready, ap, cond, counter, incr)
    store['ready_scan'] = rs
    return rs


def _scan_error_as_violation(ctx: Ctx, rid: str):
    """Fail closed: if the ready scan is not in a recognised form the gate cannot be shown to exist."""
    try:
        return ready_scan(ctx), None
    except AnalysisError as ex:
        st = roles.state(ctx)
        return None, ctx.ob(rid, False, st.ready_method, st.ready_method.node, 'ready scan',
                            f'no recognisable gate: {ex}', construct='ready-scan-shape')


@rule('C02.READY-GATE', ['C02', 'C01'])
def ready_gate(ctx: Ctx):
    """A task enters the ready list only if its pending-dependency set is empty."""
    rs, err = _scan_error_as_violation(ctx, 'C02.READY-GATE')
    if err:
        yield err
        return
    sf = roles.state_fields(ctx)
    sn = rs.fn.self_name
    if sf.pending_deps is None:
        yield ctx.ob('C02.READY-GATE', False, rs.fn, rs.loop, 'pending-dependency map',
                     'no pending-dependency map is maintained by the scheduler state', construct='no-pd')
        return
    need = formula_of(ctx, rs.fn, f'len({sn}.{sf.pending_deps}[{rs.tvar}]) == 0')
    ok = implies(rs.cond, need)
    yield ctx.ob('C02.READY-GATE', ok, rs.fn, rs.append, f'append guarded by empty {sf.pending_deps}[{rs.tvar}]',
                 '' if ok else f'`{src(rs.append)}` is reached when {show(rs.cond)}, which does not imply that '
                 f'{sf.pending_deps}[{rs.tvar}] is empty (counterexample {counterexample(rs.cond, need, "implies")})')
    # the scan iterates the pending collection itself
    it = strip_order_preserving(rs.loop.iter)
    ok2 = same_expr(it, ast.parse(f'{sn}.{sf.pending}', mode='eval').body)
    yield ctx.ob('C02.READY-GATE', ok2, rs.fn, rs.loop, f'scan iterates {sn}.{sf.pending}',
                 '' if ok2 else f'the ready scan iterates `{src(rs.loop.iter)}`, not the pending-task collection')


def _mp_expr(tv: str) -> str:
    return f'{tv}._lt.max_parallel'


@rule('C04.TYPE-GATE', ['C04', 'C11'])
def type_gate(ctx: Ctx):
    """Per-type gate: skip iff max_parallel is set and active+newly-ready count >= max_parallel."""
    rs, err = _scan_error_as_violation(ctx, 'C04.TYPE-GATE')
    if err:
        yield err
        return
    fn = rs.fn
    sn = fn.self_name
    sf = roles.state_fields(ctx)
    if rs.counter is None:
        yield ctx.ob('C04.TYPE-GATE', False, fn, rs.loop, 'per-type counter',
                     f'no `<counter>[type({rs.tvar})] += 1` in the scan loop: tasks made ready in this scan are not counted '
                     'against max_parallel', construct='no-counter')
        return
    C = rs.counter
    mp = _mp_expr(rs.tvar)
    need = formula_of(ctx, fn, f'({mp} is None) or ({C}[type({rs.tvar})] < {mp})')
    ok = implies(rs.cond, need)
    yield ctx.ob('C04.TYPE-GATE', ok, fn, rs.append, 'append implies count < max_parallel (or no limit)',
                 '' if ok else f'`{src(rs.append)}` is reached when {show(rs.cond)}; that does not imply {show(need)} '
                 f'(counterexample {counterexample(rs.cond, need, "implies")})')
    # increment on exactly the paths that append, once
    ci = cond_in_loop(ctx, fn, rs.loop, rs.incr)
    ok = equivalent(ci, rs.cond)
    amount_ok = isinstance(rs.incr.value, ast.Constant) and rs.incr.value.value == 1
    yield ctx.ob('C04.TYPE-GATE', ok and amount_ok, fn, rs.incr, 'counter incremented by 1 exactly when a task is made ready',
                 '' if ok and amount_ok else (f'the increment happens when {show(ci)} but the append when {show(rs.cond)}'
                                              if not ok else f'increment is `{src(rs.incr)}`, expected += 1'))
    # no other write to the counter inside the loop; the gate reads the counter before the increment
    g = ctx.cfg(fn)
    header, body = loop_region(ctx, fn, rs.loop)
    other_writes = []
    for n in walk_local(rs.loop):
        if n is rs.incr:
            continue
        if isinstance(n, (ast.Assign, ast.AugAssign, ast.Delete)):
            tg = n.targets if isinstance(n, (ast.Assign, ast.Delete)) else [n.target]
            for t in tg:
                for x in ast.walk(t):
                    if isinstance(x, ast.Name) and x.id == C and not isinstance(x.ctx, ast.Load):
                        other_writes.append(n)
                    if isinstance(x, ast.Subscript) and isinstance(x.value, ast.Name) and x.value.id == C:
                        other_writes.append(n)
    yield ctx.ob('C04.TYPE-GATE', not other_writes, fn, rs.loop, 'counter written only by the increment',
                 '' if not other_writes else f'`{src(other_writes[0])}` also writes the per-type counter inside the scan')
    # initialisation from the active tasks
    rd = ctx.rd(fn)
    defs = rd.reaching(g.primary(rs.loop), C)
    ok_init = False
    init_node = None
    if len(defs) == 1:
        d = next(iter(defs))
        dv = rd.def_value(d, C)
        if dv and dv[0] == 'value':
            init_node = dv[1]
            ok_init = _is_active_count_init(dv[1], sn, sf.active)
    yield ctx.ob('C04.TYPE-GATE', ok_init, fn, init_node or rs.loop, f'counter initialised from len({sf.active}[type])',
                 '' if ok_init else 'the per-type counter is not initialised, for every type, from the number of active tasks '
                 f'(expected {{type: len(tasks) for type, tasks in {sn}.{sf.active}.items()}})',
                 construct='counter-init')


def _is_active_count_init(e: ast.AST, sn: str, active: Optional[str]) -> bool:
    if active is None:
        return False
    if isinstance(e, ast.Call) and dotted(e.func) in ('Counter', 'collections.Counter', 'dict', 'defaultdict',
                                                       'collections.defaultdict'):
        args = [a for a in e.args if not (isinstance(a, ast.Name) and a.id == 'int')]
        if len(args) != 1:
            return False
        e = args[0]
    if not isinstance(e, ast.DictComp) or len(e.generators) != 1:
        return False
    gen = e.generators[0]
    if gen.ifs:
        return False
    it = gen.iter
    if not (isinstance(it, ast.Call) and isinstance(it.func, ast.Attribute) and it.func.attr == 'items'
            and same_expr(it.func.value, ast.parse(f'{sn}.{active}', mode='eval').body)):
        return False
    if not (isinstance(gen.target, ast.Tuple) and len(gen.target.elts) == 2
            and all(isinstance(x, ast.Name) for x in gen.target.elts)):
        return False
    k, v = gen.target.elts[0].id, gen.target.elts[1].id
    lin = linearize(e.value)
    expect = canon(ast.parse(f'len({v})', mode='eval').body)
    return isinstance(e.key, ast.Name) and e.key.id == k and lin is not None and lin[1] == 0 and lin[0] == {expect: 1}


@rule('C05.SCAN-EXACT', ['C05', 'C11'])
def scan_exact(ctx: Ctx):
    """The ready scan admits a task exactly when it is unblocked and under its type limit: the two
    sanctioned skips and nothing else (never fewer tasks than capacity allows), over the whole
    pending collection."""
    rs, err = _scan_error_as_violation(ctx, 'C05.SCAN-EXACT')
    if err:
        yield err
        return
    fn = rs.fn
    sn = fn.self_name
    sf = roles.state_fields(ctx)
    C = rs.counter or '__missing_counter__'
    mp = _mp_expr(rs.tvar)
    need = formula_of(ctx, fn, f'(len({sn}.{sf.pending_deps}[{rs.tvar}]) == 0) and (({mp} is None) or ({C}[type({rs.tvar})] < {mp}))')
    ok = equivalent(rs.cond, need)
    yield ctx.ob('C05.SCAN-EXACT', ok, fn, rs.append, 'append condition == unblocked and under the type limit',
                 '' if ok else f'a task is made ready when {show(rs.cond)}; expected exactly {show(need)} '
                 f'(differs at {counterexample(rs.cond, need)})')
    exits = early_exits(rs.loop, allow_raise=True, allow_continue=True)
    yield ctx.ob('C05.SCAN-EXACT', not exits, fn, exits[0] if exits else rs.loop, 'scan visits every pending task',
                 '' if not exits else f'`{src(exits[0])}` ends the ready scan early; later runnable tasks are not started')
    # the counter a blocked task cannot consume: increment condition == append condition (shared with C04)
    if rs.incr is not None:
        ci = cond_in_loop(ctx, fn, rs.loop, rs.incr)
        ok = equivalent(ci, rs.cond)
        yield ctx.ob('C05.SCAN-EXACT', ok, fn, rs.incr, 'only admitted tasks consume a per-type slot',
                     '' if ok else f'the per-type counter is incremented when {show(ci)}, i.e. also for tasks that are not '
                     'admitted; runnable tasks of that type are then held back')
        # the gate must read the counter before this iteration's increment
        g = ctx.cfg(fn)
        header, body = loop_region(ctx, fn, rs.loop)
        inc_n = g.primary(rs.incr)
        tests_after = [t for t in g.reachable([inc_n], avoid=[header], include_starts=False) & body
                       if g.node(t).kind == 'test' and any(isinstance(x, ast.Name) and x.id == C for x in ast.walk(g.node(t).ast))]
        yield ctx.ob('C05.SCAN-EXACT', not tests_after, fn, rs.incr, 'limit tested before the increment',
                     '' if not tests_after else 'the per-type limit is tested after the counter was already incremented for this task')


@rule('C04.ACTIVE-BOOK', ['C04', 'C05', 'C10', 'C11'])
def active_book(ctx: Ctx):
    """Active-task bookkeeping: the task itself is added in the start phase and removed, unconditionally,
    in the completion phase; nowhere else."""
    st = roles.state(ctx)
    sf = roles.state_fields(ctx)
    A = sf.active
    if A is None:
        yield ctx.ob('C04.ACTIVE-BOOK', False, st.start_method, st.start_method.node, 'active-task map',
                     'the start method does not record the task under its type in any state field', construct='no-active')
        return
    adds = rems = 0
    for fn in st.cls.methods.values():
        for f2 in [fn] + list(fn.nested.values()):
            for w in field_writes(f2):
                if w.field != A:
                    continue
                phase = st.phase_of(fn)
                sn = fn.self_name
                tparam = [a.arg for a in fn.params if a.arg != sn][:1]
                if w.kind == 'rebind':
                    ok = fn.name == '__init__'
                    msg = f'{A} is rebound outside __init__'
                elif w.kind in ('mutcall:add',):
                    el = w.node.args[0] if w.node.args else None
                    key_ok = isinstance(w.node.func.value, ast.Subscript) and isinstance(w.node.func.value.slice, ast.Call) \
                        and dotted(w.node.func.value.slice.func) == 'type'
                    ok = phase == 'start' and tparam and isinstance(el, ast.Name) and el.id == tparam[0] and key_ok \
                        and cond_from_entry(ctx, f2, w.node) == TRUE
                    msg = (f'`{src(w.node)}`: the active set must receive the started task itself, under type(task), '
                           f'unconditionally, in the start phase (found in {phase} phase)')
                    adds += 1
                elif w.kind in ('mutcall:remove', 'mutcall:discard'):
                    el = w.node.args[0] if w.node.args else None
                    ok = phase == 'completion' and tparam and isinstance(el, ast.Name) and el.id == tparam[0] \
                        and cond_from_entry(ctx, f2, w.node) == TRUE
                    msg = (f'`{src(w.node)}`: the finished task must leave the active set unconditionally (success or failure) '
                           f'in the completion phase (found in {phase} phase, condition {show(cond_from_entry(ctx, f2, w.node))})')
                    rems += 1
                else:
                    ok = False
                    msg = f'unexpected write {w.kind} on {A}'
                yield ctx.ob('C04.ACTIVE-BOOK', bool(ok), f2, w.node, f'{w.kind} on {A} in {phase} phase', '' if ok else msg)
    if adds == 0:
        yield ctx.ob('C04.ACTIVE-BOOK', False, st.start_method, st.start_method.node, 'add to active set',
                     'no task is ever added to the active set', construct='no-add')
    if rems == 0:
        yield ctx.ob('C04.ACTIVE-BOOK', False, st.complete_method, st.complete_method.node, 'remove from active set',
                     'a finished task is never removed from the active set: its type slot is never freed', construct='no-remove')


# ----------------------------------------------------------------------------------------
# main loop and submission


def dataflow_expand(ctx: Ctx, fn: FuncInfo, e: ast.AST, at: int) -> ast.AST:
    from ..dataflow import guard_like
    return expand_locals(ctx.cfg(fn), ctx.rd(fn), e, at, only=guard_like)


def _main_loop(ctx: Ctx):
    sub = roles.submission_sites(ctx)[0]
    fn = sub.fn
    inner = roles.enclosing_loop_of(fn.node, sub.call)
    if not isinstance(inner, ast.For):
        raise AnalysisError(f'{fn.where(sub.call)}: the submission site is not inside a for loop over the ready tasks')
    outer = roles._innermost_containing(fn.node, inner, ast.While)
    if outer is None:
        raise AnalysisError(f'{fn.where(inner)}: the submit loop is not inside a while loop')
    return sub, fn, inner, outer


@rule('SUBMIT-FROM-READY', ['C02', 'C03', 'C04', 'C05'])
def submit_from_ready(ctx: Ctx):
    """Every submitted task is an element of the list get_ready_tasks() returned in the same
    iteration of the main loop."""
    st = roles.state(ctx)
    for sub in roles.submission_sites(ctx):
        fn = sub.fn
        g = ctx.cfg(fn)
        rd = ctx.rd(fn)
        inner = roles.enclosing_loop_of(fn.node, sub.call)
        ok = False
        msg = 'the submitted task is not the loop variable of a loop over the ready list'
        if isinstance(inner, ast.For) and isinstance(inner.target, ast.Name) and isinstance(sub.task_arg, ast.Name) \
                and sub.task_arg.id == inner.target.id \
                and rd.single_def(g.primary(sub.call), sub.task_arg.id) == g.primary(inner):
            it = strip_order_preserving(inner.iter)
            src_call = None
            if isinstance(it, ast.Call):
                src_call = it
            elif isinstance(it, ast.Name):
                itn = [n for n in g.nodes_containing(inner.iter) if g.node(n).kind == 'iter_eval']
                d = rd.single_def(itn[0] if itn else g.primary(inner), it.id)
                dv = rd.def_value(d, it.id) if d is not None else None
                if dv and dv[0] == 'value':
                    src_call = strip_order_preserving(dv[1])
            if isinstance(src_call, ast.Call) and st.ready_method.qualname in ctx.P.resolve_call(src_call, fn):
                # evaluated in the same iteration of the enclosing while loop
                outer = roles._innermost_containing(fn.node, inner, ast.While)
                same_iter = outer is not None and any(x is src_call for x in ast.walk(outer))
                ok = same_iter
                msg = 'the ready list is computed outside the main loop (stale across iterations)'
            else:
                msg = f'the loop iterates `{src(inner.iter)}`, which is not the return value of {st.ready_method.name}()'
        yield ctx.ob('SUBMIT-FROM-READY', ok, fn, sub.call, 'submitted task comes from the ready list of this iteration',
                     '' if ok else msg)


@rule('C03.SUBMIT-ONCE', ['C03', 'C04'])
def submit_once(ctx: Ctx):
    """start_task (removal from the pending set) on the same task dominates submit_task; the pending
    set is only added to in the construction phase."""
    st = roles.state(ctx)
    sf = roles.state_fields(ctx)
    for sub in roles.submission_sites(ctx):
        fn = sub.fn
        g = ctx.cfg(fn)
        starts = [c for c in calls_in(fn.node) if st.start_method.qualname in ctx.P.resolve_call(c, fn)
                  and c.args and same_expr(c.args[0], sub.task_arg)]
        sn = g.primary(sub.call)
        ok = any(g.dominates(g.primary(c), sn) and ctx.rd(fn).same_binding(g.primary(c), sn, sub.task_arg.id)
                 for c in starts if isinstance(sub.task_arg, ast.Name))
        yield ctx.ob('C03.SUBMIT-ONCE', ok, fn, sub.call, f'{st.start_method.name}(task) dominates submit_task(task)',
                     '' if ok else f'submit_task is reachable without {st.start_method.name}() having removed the same task from the pending set')
    # start method removes the task from the pending set, unconditionally
    sm = st.start_method
    tparam = [a.arg for a in sm.params if a.arg != sm.self_name][0]
    rem = [w for w in field_writes(sm) if w.field == sf.pending and w.kind in ('mutcall:remove', 'mutcall:discard', 'item_delete')]
    ok = any(w.node.args and isinstance(w.node.args[0], ast.Name) and w.node.args[0].id == tparam
             and cond_from_entry(ctx, sm, w.node) == TRUE for w in rem if isinstance(w.node, ast.Call))
    yield ctx.ob('C03.SUBMIT-ONCE', ok, sm, rem[0].node if rem else sm.node, f'{sm.name} removes the task from {sf.pending}',
                 '' if ok else f'{sm.name} does not unconditionally remove the started task from {sf.pending}: it can be submitted again')
    for fn in st.cls.methods.values():
        for w in field_writes(fn):
            if w.field == sf.pending and w.kind in ('mutcall:add', 'mutcall:update', 'item_store', 'mutcall:append', 'mutcall:extend'):
                okp = st.phase_of(fn) == 'construction'
                yield ctx.ob('C03.SUBMIT-ONCE', okp, fn, w.node, f'{w.kind} on {sf.pending} in {st.phase_of(fn)} phase',
                             '' if okp else f'tasks are (re-)added to {sf.pending} outside the construction phase')


@rule('C05.SUBMIT-ALL', ['C05'])
def submit_all(ctx: Ctx):
    """All ready tasks are submitted before each wait; the wait follows the submit loop in the
    main loop body."""
    sub, fn, inner, outer = _main_loop(ctx)
    g = ctx.cfg(fn)
    it = inner.iter
    ok = isinstance(strip_order_preserving(it), (ast.Name, ast.Call)) and not isinstance(it, ast.Subscript)
    yield ctx.ob('C05.SUBMIT-ALL', ok, fn, inner, 'submit loop iterates the whole ready list',
                 '' if ok else f'the submit loop iterates `{src(it)}`, not the whole ready list')
    exits = early_exits(inner, allow_raise=True, allow_continue=False)
    yield ctx.ob('C05.SUBMIT-ALL', not exits, fn, exits[0] if exits else inner, 'submit loop has no early exit',
                 '' if not exits else f'`{src(exits[0])}` leaves the submit loop before every ready task was submitted')
    c = cond_in_loop(ctx, fn, inner, sub.call)
    yield ctx.ob('C05.SUBMIT-ALL', c == TRUE, fn, sub.call, 'every ready task reaches submit_task',
                 '' if c == TRUE else f'submit_task is reached only when {show(c)}')
    # the wait (consumer of Runner.wait) is reached after the submit loop in every iteration
    cl = roles.consumer_loops(ctx)[0]
    wait_sites = []
    for call in calls_in(outer):
        cs = ctx.P.resolve_call(call, fn)
        if cl.fn.qualname in cs:
            wait_sites.append(call)
    if cl.fn.qualname == fn.qualname:
        wait_sites = [cl.wait_call]
    if not wait_sites:
        yield ctx.ob('C05.SUBMIT-ALL', False, fn, outer, 'wait after submit', 'the main loop never waits for completions',
                     construct='no-wait')
        return
    header = g.primary(outer)
    inner_h = g.primary(inner)
    wnodes = [g.primary(w) for w in wait_sites]
    # from the submit loop's exit, the back edge of the main loop is reached only through a wait
    ok = g.must_pass(inner_h, wnodes, [header], exc=False)
    yield ctx.ob('C05.SUBMIT-ALL', ok, fn, wait_sites[0], 'every main-loop iteration waits after submitting',
                 '' if ok else 'the main loop can iterate without waiting for completions')
    # the Runner.wait(...) call itself: where it is *evaluated* before the round's submissions (`completed = runner.wait(...)` hoisted
    # above the submit loop and only iterated afterwards), every implementation must be lazy - a generator function, whose body
    # does not run until it is iterated; an eager wait() would block for its timeout before the ready tasks are started
    early = []
    for (wf, wc) in cl.wait_calls:
        if wf.qualname != fn.qualname or not any(x is wc for x in ast.walk(outer)):
            continue
        if g.primary(inner) in g.reachable([g.primary(wc)], avoid=[header], exc=False, include_starts=False):
            early.append(wc)
    if early:
        eager = [w for w in roles.impls(ctx, roles.RUNNER, 'wait')
                 if not any(isinstance(x, (ast.Yield, ast.YieldFrom)) for x in walk_local(w.node))]
        yield ctx.ob('C05.SUBMIT-ALL', not eager, fn, early[0], 'a wait() evaluated before the submissions is lazy in every runner',
                     '' if not eager else f'`{src(early[0])}` is evaluated before the ready tasks are submitted and {eager[0].short} is not a generator: '
                     'it polls (and blocks for its timeout) first, so every newly runnable task starts one polling round late',
                     construct='wait-evaluated-early')
    # nothing between the ready computation and the submit loop can skip it
    ci = cond_in_loop(ctx, fn, outer, inner)
    ok2 = ci == TRUE
    if not ok2 and isinstance(outer.test, ast.Constant) and outer.test.value:
        # `while True:` with a leading `if <done>: break`: the submit loop runs in every iteration that is not the last
        brks = [b for b in early_exits(outer, allow_raise=True, allow_continue=True) if isinstance(b, ast.Break)]
        ok2 = len(brks) == 1 and equivalent(ci, f_not(cond_in_loop(ctx, fn, outer, brks[0])))
    yield ctx.ob('C05.SUBMIT-ALL', ok2, fn, inner, 'submit loop runs in every main-loop iteration',
                 '' if ok2 else f'the submit loop is skipped unless {show(ci)}')


@rule('C11.LOOP-COND', ['C11'])
def loop_cond(ctx: Ctx):
    """The main loop continues while tasks are pending in the scheduler state or in the runner."""
    sub, fn, inner, outer = _main_loop(ctx)
    st = roles.state(ctx)
    sf = roles.state_fields(ctx)
    # the state variable
    svar = None
    for n in walk_local(fn.node):
        if isinstance(n, ast.Assign) and isinstance(n.value, ast.Call) and len(n.targets) == 1 \
                and isinstance(n.targets[0], ast.Name) and st.cls.qualname in ctx.P.resolve_call(n.value, fn):
            svar = n.targets[0].id
    # the effective continuation condition: the while test, or for `while True:` the negation of the guard of the
    # leading `if ...: break`
    test_expr = outer.test
    have = None
    if isinstance(outer.test, ast.Constant) and outer.test.value:
        brks = [b for b in early_exits(outer, allow_raise=True, allow_continue=True) if isinstance(b, ast.Break)]
        g0 = ctx.cfg(fn)
        if len(brks) == 1:
            cb = cond_in_loop(ctx, fn, outer, brks[0])
            have = f_not(cb)
            # the break must come before anything is submitted or waited for
            first_sub = g0.primary(inner)
            if not g0.dominates(g0.primary(brks[0]), first_sub) and not g0.must_pass(g0.primary(outer), [n.id for n in g0.nodes if n.kind == 'test'], [first_sub], exc=False):
                have = None
            test_src = [n for n in g0.nodes if n.kind == 'test' and (n.id, True) in ctx.facts(fn).at(g0.primary(brks[0])) or (n.kind == 'test' and (n.id, False) in ctx.facts(fn).at(g0.primary(brks[0])))]
            if test_src:
                test_expr = dataflow_expand(ctx, fn, test_src[-1].ast, test_src[-1].id)
    pcs = [c for c in calls_in(ast.Expr(value=test_expr)) if c is not None
           and {f.qualname for f in roles.impls(ctx, roles.RUNNER, 'pending_task_count')} & set(ctx.P.resolve_call(c, fn))]
    if svar is None or not pcs:
        yield ctx.ob('C11.LOOP-COND', False, fn, outer, 'main loop condition',
                     f'the loop condition `{src(test_expr)}` does not consult runner.pending_task_count()', construct='loop-cond')
        return
    if have is None:
        have = formula_of(ctx, fn, outer.test)
    need = formula_of(ctx, fn, f'(len({svar}.{sf.pending}) > 0) or ({src(pcs[0])} > 0)')
    # pending_task_count() is a length (checked below), hence non-negative: `!= 0` is the same test
    need_ne = formula_of(ctx, fn, f'(len({svar}.{sf.pending}) > 0) or ({src(pcs[0])} != 0)')
    ok = equivalent(have, need) or equivalent(have, need_ne)
    yield ctx.ob('C11.LOOP-COND', ok, fn, outer, 'loop while pending in state or in runner',
                 '' if ok else f'loop condition is {show(have)}, expected {show(need)}')
    for f in roles.impls(ctx, roles.RUNNER, 'pending_task_count'):
        rets = [n for n in walk_local(f.node) if isinstance(n, ast.Return)]
        okr = len(rets) == 1 and isinstance(rets[0].value, ast.Call) and dotted(rets[0].value.func) == 'len' \
            and isinstance(rets[0].value.args[0], ast.Attribute)
        fld = rets[0].value.args[0].attr if okr else None
        # the counted structure is the one submit_task adds to
        okc = False
        if okr:
            subm = ctx.P.find_method(f.cls, 'submit_task')
            okc = subm is not None and any(w.field == fld for w in field_writes(subm))
        yield ctx.ob('C11.LOOP-COND', okr and okc, f, rets[0] if rets else f.node,
                     'pending_task_count = len(structure that submit_task fills)',
                     '' if okr and okc else 'pending_task_count does not return the length of the submission structure')


# ----------------------------------------------------------------------------------------
# construction phase


@rule('C02.EDGES', ['C02', 'C01', 'C17', 'C11'])
def edges(ctx: Ctx):
    """For every inserted task each dependency is registered in both directions, and dependencies are
    themselves inserted (recursion / worklist)."""
    st = roles.state(ctx)
    sf = roles.state_fields(ctx)
    fn = sf.insert_fn
    sn = fn.self_name
    lp = sf.insert_loop
    dv, tv = sf.insert_dep_var, sf.insert_task_var
    exits = early_exits(lp, allow_raise=True, allow_continue=False)
    it = strip_order_preserving(lp.iter)
    whole = isinstance(it, ast.Name)
    yield ctx.ob('C02.EDGES', whole and not exits, fn, lp, 'edge loop covers all dependencies',
                 '' if whole and not exits else f'the edge-registration loop iterates `{src(lp.iter)}` or exits early')
    for (field, key, val, role) in ((sf.pending_deps, tv, dv, 'pending dependencies of the task'),
                                    (sf.pending_dependents, dv, tv, 'pending dependents of the dependency'),
                                    (sf.direct_deps, tv, dv, 'direct dependencies of the task')):
        found = None
        if field is not None:
            for call in calls_in(lp):
                if isinstance(call.func, ast.Attribute) and call.func.attr == 'add' and len(call.args) == 1 \
                        and same_expr(call.func.value, ast.parse(f'{sn}.{field}[{key}]', mode='eval').body) \
                        and isinstance(call.args[0], ast.Name) and call.args[0].id == val:
                    found = call
        ok = found is not None and cond_in_loop(ctx, fn, lp, found) == TRUE
        if not ok and field == sf.direct_deps and sf.direct_deps_whole_assign is not None \
                and cond_from_entry(ctx, fn, sf.direct_deps_whole_assign) == TRUE:
            # `self.<map>[task] = dependencies` (or a copy of it): all edges at once; C17.DEPS-OWNED decides whether the
            # stored collection is safe from the caller
            ok, found = True, sf.direct_deps_whole_assign
        yield ctx.ob('C02.EDGES', ok, fn, found or lp, f'{role} registered for every edge',
                     '' if ok else f'no unconditional `{sn}.<map>[{key}].add({val})` registering the {role}',
                     construct=f'edge:{role}')
    # dependencies flow into insertion: the function that calls insert with get_direct_dependencies' result
    gdd = ctx.P.func('tasks.get_direct_dependencies')
    inlined = any(gdd.qualname in ctx.P.resolve_call(c, fn) for c in calls_in(fn.node))
    sites = []
    if inlined:
        # the insertion lives in the processing function itself: the dependency collection is what the edge
        # loop iterates
        sites.append((fn, lp, lp.iter))
    else:
        for cf in st.construction:
            for call in calls_in(cf.node):
                if fn.qualname in ctx.P.resolve_call(call, cf) and cf.qualname != fn.qualname:
                    da = call.args[1] if len(call.args) > 1 else kwarg(call, [a.arg for a in fn.params][2] if len(fn.params) > 2 else 'dependencies')
                    sites.append((cf, call, da))
    for (cf, call, deps_arg) in sites:
        for _once in (0,):
            if True:
                g = ctx.cfg(cf)
                rd = ctx.rd(cf)
                okp = False
                if isinstance(deps_arg, ast.Name):
                    defs = rd.reaching(g.primary(call), deps_arg.id)
                    vals = [rd.def_value(d, deps_arg.id) for d in defs]
                    def _has_gdd(e):
                        if isinstance(e, ast.IfExp):
                            return _has_gdd(e.body) or _has_gdd(e.orelse)
                        return isinstance(e, ast.Call) and gdd.qualname in ctx.P.resolve_call(e, cf)
                    okp = any(v and v[0] == 'value' and _has_gdd(v[1]) for v in vals)
                elif isinstance(deps_arg, ast.Call):
                    okp = gdd.qualname in ctx.P.resolve_call(deps_arg, cf)
                yield ctx.ob('C02.EDGES', okp, cf, call, 'inserted with the result of get_direct_dependencies',
                             '' if okp else f'`{src(call)}` does not receive the task\'s direct dependencies')
                # the dependencies are themselves processed: they flow to a recursive call or the worklist
                okr = _deps_reprocessed(ctx, cf, deps_arg)
                yield ctx.ob('C02.EDGES', okr, cf, call, 'dependencies are themselves inserted (recursion / worklist)',
                             '' if okr else 'discovered dependencies are never inserted into the scheduler state themselves',
                             construct='deps-reprocessed')


def _deps_selection(ctx: Ctx, cf: FuncInfo, deps_arg):
    """A reason string when cf forwards only a *selection* of the discovered dependencies (by equality,
    membership or a predicate) towards its own recursion / worklist, None otherwise.  Identity tests are fine."""
    if not isinstance(deps_arg, ast.Name):
        return None
    acc: set[str] = set()
    src_names = {deps_arg.id}

    def mentions(e: ast.AST) -> bool:
        return any(isinstance(x, ast.Name) and x.id in (acc | src_names) for x in ast.walk(e))

    def id_based(t: ast.AST) -> bool:
        # identity tests never drop an equal-but-distinct instance: id(x) in seen, x is y, x is not None
        if isinstance(t, ast.UnaryOp) and isinstance(t.op, ast.Not):
            return id_based(t.operand)
        if isinstance(t, ast.BoolOp):
            return all(id_based(v) for v in t.values)
        if isinstance(t, ast.Compare):
            if all(isinstance(o, (ast.Is, ast.IsNot)) for o in t.ops):
                return True
            return isinstance(t.left, ast.Call) and isinstance(t.left.func, ast.Name) and t.left.func.id == 'id'
        return False

    def selects(t: ast.AST, names: set) -> bool:
        # a membership / equality / predicate test on an element (or on the collection being forwarded)
        if id_based(t):
            return False
        for x in ast.walk(t):
            if isinstance(x, ast.Compare) and any(isinstance(o, (ast.In, ast.NotIn, ast.Eq, ast.NotEq)) for o in x.ops) \
                    and any(isinstance(y, ast.Name) and y.id in names for y in ast.walk(x)):
                return True
            if isinstance(x, ast.Call) and not (isinstance(x.func, ast.Name) and x.func.id in ('len', 'bool', 'id')) \
                    and any(isinstance(y, ast.Name) and y.id in names for a in x.args for y in ast.walk(a)):
                return True
        return False

    def lossy(e: ast.AST) -> bool:
        """The expression forwards only a selection of the dependencies: a comprehension with a selecting
        condition, filter(), a slice, or a set difference / intersection over them."""
        for x in ast.walk(e):
            if isinstance(x, (ast.ListComp, ast.SetComp, ast.GeneratorExp)):
                for gen in x.generators:
                    if mentions(gen.iter):
                        tv = {y.id for y in ast.walk(gen.target) if isinstance(y, ast.Name)}
                        if any(selects(t, tv) for t in gen.ifs):
                            return True
            elif isinstance(x, ast.Call) and isinstance(x.func, ast.Name) and x.func.id == 'filter' and any(mentions(a) for a in x.args):
                return True
            elif isinstance(x, ast.Subscript) and isinstance(x.slice, ast.Slice) and mentions(x.value):
                return True
            elif isinstance(x, ast.BinOp) and isinstance(x.op, (ast.Sub, ast.BitAnd)) and mentions(x.left):
                return True
        return False

    # element-wise forwarding `for d in deps: if <selecting test on d>: acc.append(d)` is the same selection
    def guarded_selection(stmt_or_call: ast.AST) -> bool:
        for lp in [n for n in walk_local(cf.node) if isinstance(n, ast.For) and mentions(n.iter)]:
            tv = {y.id for y in ast.walk(lp.target) if isinstance(y, ast.Name)}
            stack = [(b, False) for b in lp.body]
            while stack:
                node, sel = stack.pop()
                if node is stmt_or_call or any(y is stmt_or_call for y in ast.walk(node)) and not isinstance(node, (ast.If, ast.For, ast.While, ast.With, ast.Try)):
                    if sel:
                        return True
                    continue
                if isinstance(node, ast.If):
                    s = selects(node.test, tv)
                    stack += [(b, sel or s) for b in node.body] + [(b, sel or s) for b in node.orelse]
                elif isinstance(node, (ast.For, ast.While, ast.With, ast.Try)):
                    for fld in ('body', 'orelse', 'finalbody'):
                        stack += [(b, sel) for b in getattr(node, fld, [])]
                    for h in getattr(node, 'handlers', []):
                        stack += [(b, sel) for b in h.body]
            # `if <selecting test>: continue` before the forwarding statement
            for b in lp.body:
                if any(y is stmt_or_call for y in ast.walk(b)):
                    break
                if isinstance(b, ast.If) and selects(b.test, tv) and any(isinstance(y, ast.Continue) for z in b.body for y in ast.walk(z)):
                    return True
        return False

    # elements drawn from the dependencies by a loop count as the dependencies themselves
    for lp0 in [n for n in walk_local(cf.node) if isinstance(n, ast.For) and mentions(n.iter)]:
        src_names |= {y.id for y in ast.walk(lp0.target) if isinstance(y, ast.Name)}
    for n in walk_local(cf.node):
        v = None
        if isinstance(n, ast.AugAssign) and isinstance(n.target, ast.Name):
            v = n.value
        elif isinstance(n, ast.Call) and isinstance(n.func, ast.Attribute) and n.func.attr in ('extend', 'update', 'append', 'add') \
                and isinstance(n.func.value, ast.Name) and n.args:
            v = n.args[0]
        elif isinstance(n, (ast.Assign, ast.AnnAssign)) and getattr(n, 'value', None) is not None:
            v = n.value
        if v is not None and mentions(v) and (lossy(v) or guarded_selection(n)):
            return f'`{src(n)}` forwards only a selection of the discovered dependencies: an instance equal to a known task is never inserted (nor marked with the outcome)'

    return None


def _deps_reprocessed(ctx: Ctx, cf: FuncInfo, deps_arg) -> bool:
    """deps flow (via += / extend / append) into a collection passed to a recursive call of cf, or
    iterated by cf's own loop (worklist)."""
    if not isinstance(deps_arg, ast.Name):
        return False
    acc: set[str] = set()
    src_names = {deps_arg.id}

    def mentions(e: ast.AST) -> bool:
        return any(isinstance(x, ast.Name) and x.id in (acc | src_names) for x in ast.walk(e))

    changed = True
    while changed:
        changed = False
        for n in walk_local(cf.node):
            tgt = None
            if isinstance(n, ast.AugAssign) and isinstance(n.op, ast.Add) and isinstance(n.target, ast.Name) and mentions(n.value):
                tgt = n.target.id
            elif isinstance(n, ast.Call) and isinstance(n.func, ast.Attribute) and n.func.attr in ('extend', 'update', 'append', 'add') \
                    and isinstance(n.func.value, ast.Name) and n.args and mentions(n.args[0]):
                tgt = n.func.value.id
            elif isinstance(n, (ast.Assign, ast.AnnAssign)) and getattr(n, 'value', None) is not None and mentions(n.value):
                # flattening / copying: list(chain.from_iterable(sets)), [d for s in sets for d in s], sets + more ...
                t0 = n.targets[0] if isinstance(n, ast.Assign) else n.target
                if isinstance(t0, ast.Name) and t0.id not in src_names:
                    tgt = t0.id
            if tgt is not None and tgt not in acc and tgt not in src_names:
                acc.add(tgt)
                changed = True
    for call in calls_in(cf.node):
        if cf.qualname in ctx.P.resolve_call(call, cf):
            for a in list(call.args) + [k.value for k in call.keywords]:
                if isinstance(a, ast.Name) and (a.id in acc or a.id == deps_arg.id):
                    # the recursive call must not be guarded by anything but non-emptiness of the accumulator
                    c = cond_from_entry(ctx, cf, call)
                    return c == TRUE or any(implies(formula_of(ctx, cf, t.format(a=a.id)), c) for t in ('len({a}) > 0', '{a}', 'len({a}) != 0'))
    for lp in [n for n in walk_local(cf.node) if isinstance(n, (ast.For, ast.While))]:
        if isinstance(lp, ast.For) and isinstance(lp.iter, ast.Name) and lp.iter.id in acc:
            return True
    return False


@rule('C03.INSTANCES', ['C03', 'C06'])
def instances(ctx: Ctx):
    """Identity-level skip in the construction phase; every instance is recorded; on success every
    recorded instance is marked."""
    st = roles.state(ctx)
    sf = roles.state_fields(ctx)
    # the processing loop: contains the call to the insertion function
    proc = None
    for cf in st.construction:
        for lp in [n for n in walk_local(cf.node) if isinstance(n, ast.For) and isinstance(n.target, ast.Name)]:
            if any(sf.insert_fn.qualname in ctx.P.resolve_call(c, cf) for c in calls_in(lp)) and cf.qualname != sf.insert_fn.qualname:
                proc = (cf, lp, [c for c in calls_in(lp) if sf.insert_fn.qualname in ctx.P.resolve_call(c, cf)][0])
    if proc is None:
        # insertion inlined into the processing function: the processing loop is the loop over the task being
        # inserted, the insertion point is the add to the pending collection
        cf = sf.insert_fn
        csn = cf.self_name
        for lp in [n for n in walk_local(cf.node) if isinstance(n, ast.For) and isinstance(n.target, ast.Name)
                   and n.target.id == sf.insert_task_var]:
            adds = [c for c in calls_in(lp) if isinstance(c.func, ast.Attribute) and c.func.attr == 'add'
                    and same_expr(c.func.value, ast.parse(f'{csn}.{sf.pending}', mode='eval').body)]
            if adds:
                proc = (cf, lp, adds[0])
    if proc is None:
        raise AnalysisError('no processing loop around the insertion of tasks found in the construction phase')
    cf, lp, ins = proc
    tv = lp.target.id
    c = cond_in_loop(ctx, cf, lp, ins)
    # allowed: TRUE, or "not (id(t) in <seen>)"
    from ..formula import atoms_of, ev, valuations
    id_key = canon(ast.parse(f'id({tv})', mode='eval').body)

    def is_id_atom(a):
        return a[0] == 'atom' and a[1] == 'in' and a[2][0] == id_key
    # whenever the identity test says "not seen before", insertion must happen (whatever else holds)
    ok = all(ev(c, v) for v in valuations(atoms_of(c)) if not any(is_id_atom(a) and v[a] for a in v))
    detail = f'insertion is reached only when {show(c)}'
    yield ctx.ob('C03.INSTANCES', ok, cf, ins, 'only identical objects (id) are skipped before insertion',
                 '' if ok else f'{detail}: skipping by equality (or any other test than id()) loses instances that must be marked')
    exits = early_exits(lp, allow_raise=True, allow_continue=True)
    yield ctx.ob('C03.INSTANCES', not exits, cf, exits[0] if exits else lp, 'processing loop visits every task',
                 '' if not exits else f'`{src(exits[0])}` ends the processing loop early')
    if isinstance(ins, ast.Call) and cf.qualname != sf.insert_fn.qualname:
        da = ins.args[1] if len(ins.args) > 1 else (ins.keywords[0].value if ins.keywords else None)
        why = _deps_selection(ctx, cf, da)
        yield ctx.ob('C03.INSTANCES', why is None, cf, ins, 'every discovered dependency instance is forwarded to insertion',
                     why or '', construct='deps-forwarded-whole')
    if sf.instances is None:
        yield ctx.ob('C03.INSTANCES', False, sf.insert_fn, sf.insert_fn.node, 'instance list',
                     'inserted instances are not recorded per task', construct='no-instances')
        return
    # append unconditional in insert fn, keyed by the task itself
    fn = sf.insert_fn
    sn = fn.self_name
    aps = [c2 for c2 in calls_in(fn.node) if isinstance(c2.func, ast.Attribute) and c2.func.attr == 'append'
           and same_expr(c2.func.value, ast.parse(f'{sn}.{sf.instances}[{sf.insert_task_var}]', mode='eval').body)
           and c2.args and isinstance(c2.args[0], ast.Name) and c2.args[0].id == sf.insert_task_var]
    if fn.qualname == cf.qualname:
        # insertion inlined into the processing loop: recorded on exactly the paths that insert
        ok = bool(aps) and equivalent(cond_in_loop(ctx, fn, lp, aps[0]), cond_in_loop(ctx, fn, lp, ins))
    else:
        ok = bool(aps) and cond_from_entry(ctx, fn, aps[0]) == TRUE
    yield ctx.ob('C03.INSTANCES', ok, fn, aps[0] if aps else fn.node, 'every inserted instance is recorded under the task',
                 '' if ok else f'no unconditional `{sn}.{sf.instances}[task].append(task)` keyed by the task itself')
    # completion: marking loop over all instances on success
    cm = st.complete_method
    csn = cm.self_name
    ps = [a.arg for a in cm.params if a.arg != csn]
    tparam, rparam = ps[0], (ps[1] if len(ps) > 1 else None)
    marks = []
    for lp2 in [n for n in walk_local(cm.node) if isinstance(n, ast.For) and isinstance(n.target, ast.Name)]:
        if same_expr(strip_order_preserving(lp2.iter), ast.parse(f'{csn}.{sf.instances}[{tparam}]', mode='eval').body):
            for c2 in calls_in(lp2):
                if isinstance(c2.func, ast.Attribute) and c2.func.attr == '_set_result_meta' \
                        and isinstance(c2.func.value, ast.Name) and c2.func.value.id == lp2.target.id:
                    marks.append((lp2, c2))
    if not marks:
        yield ctx.ob('C03.INSTANCES', False, cm, cm.node, 'marking loop',
                     f'the completion method does not call _set_result_meta on every element of {sf.instances}[{tparam}]',
                     construct='no-marking-loop')
        return
    lp2, mk = marks[0]
    okm = cond_in_loop(ctx, cm, lp2, mk) == TRUE and not early_exits(lp2, allow_raise=True, allow_continue=False) \
        and mk.args and isinstance(mk.args[0], ast.Name) and mk.args[0].id == rparam
    yield ctx.ob('C03.INSTANCES', bool(okm), cm, mk, 'every instance marked with the outcome',
                 '' if okm else 'the marking loop skips instances or marks with something other than the result_meta argument')
    c3 = cond_from_entry(ctx, cm, lp2)
    need = formula_of(ctx, cm, f'{rparam} is not None')
    okc = equivalent(c3, need)
    yield ctx.ob('C03.INSTANCES', okc, cm, lp2, 'marking happens exactly on success',
                 '' if okc else f'marking loop runs when {show(c3)}, expected {show(need)}')


@rule('C03.NO-EXPAND-CACHED', ['C03', 'C08', 'C01', 'C02'])
def no_expand_cached(ctx: Ctx):
    """Dependencies are discovered exactly for tasks that will not be served from cache, and the
    plan-time predicate is the coordinator's use_cache (bust_cache honoured)."""
    st = roles.state(ctx)
    gdd = ctx.P.func('tasks.get_direct_dependencies')
    uc = ctx.P.func('lab.TaskCoordinator.use_cache')
    n = 0
    for cf in st.construction:
        for call in calls_in(cf.node):
            if gdd.qualname not in ctx.P.resolve_call(call, cf):
                continue
            n += 1
            lp = roles.enclosing_loop_of(cf.node, call)
            if lp is None or not isinstance(lp, ast.For) or not isinstance(lp.target, ast.Name):
                yield ctx.ob('C03.NO-EXPAND-CACHED', False, cf, call, 'dependency discovery in the processing loop',
                             'get_direct_dependencies is not called on the loop task of the processing loop')
                continue
            tv = lp.target.id
            c = cond_in_loop(ctx, cf, lp, call)
            # project away the identity skip
            ucall = None
            for c2 in calls_in(lp):
                if uc.qualname in ctx.P.resolve_call(c2, cf) and c2.args and isinstance(c2.args[0], ast.Name) and c2.args[0].id == tv:
                    ucall = c2
            if ucall is None:
                yield ctx.ob('C03.NO-EXPAND-CACHED', False, cf, call, 'expansion guarded by use_cache(task)',
                             f'dependency expansion is not guarded by TaskCoordinator.use_cache({tv}) '
                             f'(condition: {show(c)}); bust_cache and the cache state must decide it', construct='no-use-cache-guard')
                continue
            fbn = ctx.fb(cf)
            saved = fbn.inline_bound
            fbn.inline_bound = 0
            try:
                c0 = cond_in_loop(ctx, cf, lp, call)
                need = f_not(fbn.build(ucall))
            finally:
                fbn.inline_bound = saved
            from ..formula import atoms_of
            idk = canon(ast.parse(f'id({tv})', mode='eval').body)
            extra = [a for a in atoms_of(c0) if not (a[0] == 'atom' and a[1] == 'in' and a[2][0] == idk)]
            # c0 must be (not id-skip) and (not use_cache): check by fixing the id atom false
            from ..formula import ev, valuations
            ok = True
            for v in valuations(atoms_of(c0) | atoms_of(need)):
                if any(a[0] == 'atom' and a[1] == 'in' and a[2][0] == idk and v[a] for a in v):
                    continue
                if ev(c0, v) != ev(need, v):
                    ok = False
            arg_ok = call.args and isinstance(call.args[0], ast.Name) and call.args[0].id == tv
            yield ctx.ob('C03.NO-EXPAND-CACHED', ok and bool(arg_ok), cf, call,
                         'dependencies expanded iff not use_cache(task)',
                         '' if ok and arg_ok else f'expansion happens when {show(c0)}, expected exactly {show(need)}')
    if n == 0:
        yield ctx.ob('C03.NO-EXPAND-CACHED', False, st.construction[0], st.construction[0].node, 'dependency discovery',
                     'the construction phase never calls get_direct_dependencies', construct='no-gdd')


@rule('C03.PREDICATE-AGREE', ['C03', 'C08', 'C01'])
def predicate_agree(ctx: Ctx):
    """The use_cache= argument at the submission site is TaskCoordinator.use_cache(<submitted task>)."""
    uc = ctx.P.func('lab.TaskCoordinator.use_cache')
    for sub in roles.submission_sites(ctx):
        a = kwarg(sub.call, 'use_cache', 2)
        ok = isinstance(a, ast.Call) and uc.qualname in ctx.P.resolve_call(a, sub.fn) and a.args \
            and same_expr(a.args[0], sub.task_arg)
        yield ctx.ob('C03.PREDICATE-AGREE', bool(ok), sub.fn, sub.call, 'use_cache=self.use_cache(task) at submission',
                     '' if ok else f'submit_task receives use_cache=`{src(a) if a is not None else "<missing>"}`; the plan-time '
                     'predicate TaskCoordinator.use_cache(task) must be used for the same task')


@rule('C03.USE-CACHE-TRUTH', ['C03', 'C08'])
def use_cache_truth(ctx: Ctx):
    """TaskCoordinator.use_cache == (not bust_cache) and lab.is_cached(task)."""
    uc = ctx.P.func('lab.TaskCoordinator.use_cache')
    from ..engine import pure_bool_body
    e = pure_bool_body(uc)
    sn = uc.self_name
    tparam = [a.arg for a in uc.params if a.arg != sn][0]
    if e is None:
        yield ctx.ob('C03.USE-CACHE-TRUTH', False, uc, uc.node, 'use_cache truth table',
                     'use_cache is not a pure boolean function of bust_cache and lab.is_cached(task)', construct='not-pure')
        return
    fbn = ctx.fb(uc)
    saved = fbn.inline_bound
    fbn.inline_bound = 0
    try:
        have = fbn.build(e)
        need = fbn.build(ast.parse(f'(not {sn}.bust_cache) and {sn}.lab.is_cached({tparam})', mode='eval').body)
    finally:
        fbn.inline_bound = saved
    ok = equivalent(have, need)
    yield ctx.ob('C03.USE-CACHE-TRUTH', ok, uc, uc.node, '4-row truth table over (bust_cache, is_cached)',
                 '' if ok else f'use_cache computes {show(have)}, expected {show(need)} (differs at {counterexample(have, need)})',
                 construct='truth-table')


# ----------------------------------------------------------------------------------------
# completion phase: unblocking


@rule('C02.UNBLOCK-ONLY-ON-COMPLETE', ['C02', 'C01'])
def unblock_only_on_complete(ctx: Ctx):
    """Pending-dependency sets shrink only in the completion phase; the completion method is only
    called from the consumer loop with the yielded task."""
    st = roles.state(ctx)
    sf = roles.state_fields(ctx)
    PD = sf.pending_deps
    n = 0
    for fn in st.cls.methods.values():
        for f2 in [fn] + list(fn.nested.values()):
            for w in field_writes(f2):
                if w.field != PD:
                    continue
                phase = st.phase_of(fn)
                if w.kind in ('mutcall:remove', 'mutcall:discard', 'item_delete', 'mutcall:pop', 'mutcall:clear'):
                    ok = phase == 'completion'
                elif w.kind in ('mutcall:add', 'item_store', 'mutcall:update', 'mutcall:setdefault'):
                    ok = phase == 'construction'
                else:
                    ok = w.kind == 'rebind' and fn.name == '__init__'
                n += 1
                yield ctx.ob('C02.UNBLOCK-ONLY-ON-COMPLETE', ok, f2, w.node, f'{w.kind} on {PD} in {phase} phase',
                             '' if ok else f'{PD} is modified ({w.kind}) in the {phase} phase: dependents may be unblocked '
                             'before their dependency finished')
    # in the completion method a pending-dependency set loses exactly the finished task: clearing it, popping from it,
    # or removing another task (directly or through a local bound to the set) unblocks a dependent whose other
    # dependencies are still running
    cm = st.complete_method
    csn = cm.self_name
    tparam = [a.arg for a in cm.params if a.arg != csn][0]

    def _is_pd_item(e):
        return isinstance(e, ast.Subscript) and isinstance(e.value, ast.Attribute) and e.value.attr == PD \
            and isinstance(e.value.value, ast.Name) and e.value.value.id == csn
    aliases = {t.id for a in walk_local(cm.node) if isinstance(a, ast.Assign) and _is_pd_item(a.value)
               for t in a.targets if isinstance(t, ast.Name)}
    aliases |= {a.target.id for a in walk_local(cm.node) if isinstance(a, ast.AnnAssign) and a.value is not None
                and _is_pd_item(a.value) and isinstance(a.target, ast.Name)}
    for c2 in calls_in(cm.node):
        if not (isinstance(c2.func, ast.Attribute) and (_is_pd_item(c2.func.value)
                                                        or isinstance(c2.func.value, ast.Name) and c2.func.value.id in aliases)):
            continue
        m = c2.func.attr
        if m in ('remove', 'discard'):
            okx = bool(c2.args) and isinstance(c2.args[0], ast.Name) and c2.args[0].id == tparam
        elif m in ('clear', 'pop', 'difference_update', 'intersection_update', 'symmetric_difference_update'):
            okx = False
        else:
            continue
        yield ctx.ob('C02.UNBLOCK-ONLY-ON-COMPLETE', okx, cm, c2, f'a pending-dependency set loses only the finished task ({m})',
                     '' if okx else f'`{src(c2)}` takes more than the finished task `{tparam}` out of a dependent\'s pending '
                     'dependencies: the dependent becomes ready while another of its dependencies is still unfinished',
                     construct=f'pd-loses-only-finished:{m}')
    cl = roles.consumer_loops(ctx)[0]
    for (f, call) in ctx.P.callers_of(st.complete_method.qualname):
        inside = any(x is call for x in ast.walk(cl.loop)) and f.qualname == cl.fn.qualname
        a0 = call.args[0] if call.args else None
        okb = inside and isinstance(a0, ast.Name) and a0.id == cl.task_var and \
            ctx.rd(f).single_def(ctx.cfg(f).primary(call), a0.id) == ctx.cfg(f).primary(cl.loop)
        yield ctx.ob('C02.UNBLOCK-ONLY-ON-COMPLETE', bool(okb), f, call, f'{st.complete_method.name} called with the yielded task',
                     '' if okb else f'{st.complete_method.name} is called outside the consumer loop of Runner.wait or with a task '
                     'other than the one the runner yielded')


@rule('C11.COMPLETE-BOTH', ['C11', 'C10', 'C17', 'C05'])
def complete_both(ctx: Ctx):
    """Every outcome reaches the completion method; there the unblocking of dependents is
    unconditional (not control-dependent on success) and complete."""
    st = roles.state(ctx)
    sf = roles.state_fields(ctx)
    for cl in roles.consumer_loops(ctx):
        g = ctx.cfg(cl.fn)
        header, body = loop_region(ctx, cl.fn, cl.loop)
        comps = [c for c in calls_in(cl.loop) if st.complete_method.qualname in ctx.P.resolve_call(c, cl.fn)]
        if not comps:
            yield ctx.ob('C11.COMPLETE-BOTH', False, cl.fn, cl.loop, 'completion call', 'outcomes are never completed',
                         construct='no-complete')
            continue
        ok = g.must_pass(header, [g.primary(c) for c in comps], [header], exc=False)
        yield ctx.ob('C11.COMPLETE-BOTH', ok, cl.fn, comps[0], 'every yielded outcome is completed',
                     '' if ok else 'an iteration of the consumer loop can finish without completing the yielded task')
    cm = st.complete_method
    sn = cm.self_name
    tparam = [a.arg for a in cm.params if a.arg != sn][0]
    PD, PT = sf.pending_deps, sf.pending_dependents
    if PD is None or PT is None:
        raise AnalysisError('the pending-dependencies / pending-dependents relations of the scheduler state were not identified')
    loops = [lp for lp in walk_local(cm.node) if isinstance(lp, ast.For) and isinstance(lp.target, ast.Name)
             and same_expr(strip_order_preserving(lp.iter), ast.parse(f'{sn}.{PT}[{tparam}]', mode='eval').body)]
    if not loops:
        yield ctx.ob('C11.COMPLETE-BOTH', False, cm, cm.node, 'unblocking loop',
                     f'the completion method has no loop over {sn}.{PT}[{tparam}] (the dependents of the finished task)',
                     construct='no-unblock-loop')
        return
    lp = loops[0]
    dv = lp.target.id
    c = cond_from_entry(ctx, cm, lp)
    exits = early_exits(lp, allow_raise=False, allow_continue=False)
    yield ctx.ob('C11.COMPLETE-BOTH', c == TRUE and not exits, cm, lp, 'unblocking loop unconditional and complete',
                 '' if c == TRUE and not exits else f'dependents are unblocked only when {show(c)} (or the loop exits early): '
                 'after a failure they would wait forever')
    rem = [c2 for c2 in calls_in(lp) if isinstance(c2.func, ast.Attribute) and c2.func.attr in ('remove', 'discard')
           and same_expr(c2.func.value, ast.parse(f'{sn}.{PD}[{dv}]', mode='eval').body)
           and c2.args and isinstance(c2.args[0], ast.Name) and c2.args[0].id == tparam]
    ok = bool(rem) and cond_in_loop(ctx, cm, lp, rem[0]) == TRUE
    yield ctx.ob('C11.COMPLETE-BOTH', ok, cm, rem[0] if rem else lp, f'{PD}[dependent].remove(task) for every dependent',
                 '' if ok else 'the finished task is not removed from the pending dependencies of every dependent')


def _set_valued_fields(ctx: Ctx, cls) -> set[str]:
    """Fields of a class annotated as dict[..., Set[...]] / Set[...] (hash-seed dependent iteration)."""
    out = set()
    init = cls.methods.get('__init__')
    if init is None:
        return out
    for n in walk_local(init.node):
        if isinstance(n, ast.AnnAssign) and isinstance(n.target, ast.Attribute):
            a = src(n.annotation)
            if 'Set[' in a or a.startswith('set[') or ', set[' in a:
                out.add(n.target.attr)
    return out


@rule('ORDER-INSENSITIVE-CONSUMERS', ['C01', 'C17', 'C11'], tier='thorough')
def order_insensitive_consumers(ctx: Ctx):
    """Sweep (hash-seed clause): a loop over an unordered collection - a set-valued state field, set(...)
    or a set literal - must have no early exit other than raise, so iteration order cannot matter."""
    n = 0
    for fn in ctx.P.all_functions():
        if not (fn.module.name.endswith('.lab') or '.runners' in fn.module.name):
            continue
        top = fn
        while top.parent is not None:
            top = top.parent
        setf = _set_valued_fields(ctx, top.cls) if top.cls is not None else set()
        sn = top.self_name
        for lp in [x for x in walk_local(fn.node) if isinstance(x, ast.For)]:
            it = strip_order_preserving(lp.iter)
            unordered = isinstance(it, (ast.Set, ast.SetComp)) or (isinstance(it, ast.Call) and dotted(it.func) in ('set', 'frozenset'))
            if isinstance(it, ast.Subscript) and isinstance(it.value, ast.Attribute) and isinstance(it.value.value, ast.Name) \
                    and it.value.value.id == sn and it.value.attr in setf:
                unordered = True
            if isinstance(it, ast.Attribute) and isinstance(it.value, ast.Name) and it.value.id == sn and it.attr in setf:
                unordered = True
            if not unordered:
                continue
            n += 1
            exits = early_exits(lp, allow_raise=True, allow_continue=True)
            yield ctx.ob('ORDER-INSENSITIVE-CONSUMERS', not exits, fn, exits[0] if exits else lp, f'loop over unordered `{src(lp.iter)}`',
                         '' if not exits else f'`{src(exits[0])}` inside a loop over the unordered collection `{src(lp.iter)}`: which elements are '
                         'processed depends on set iteration order, i.e. on the hash seed')
    if n == 0:
        yield ctx.ob('ORDER-INSENSITIVE-CONSUMERS', True, None, None, 'no loop over an unordered collection found', construct='none', path='labtech/lab.py')


@rule('C14.START-BEFORE-SUBMIT', ['C14', 'C04', 'C11', 'C03'])
def start_before_submit(ctx: Ctx):
    """The scheduler state records a task as started *before* the runner is asked to run it: an interrupt (or a failure of
    submit_task itself) between the two must leave a task that is pending-and-not-running, never one that is running but
    still pending - the drain after Ctrl-C would complete a task the state never started (KeyError), and the per-type
    count would miss a process that already exists."""
    st = roles.state(ctx)
    for site in roles.submission_sites(ctx):
        g = ctx.cfg(site.fn)
        starts = [c for c in calls_in(site.fn.node) if st.start_method.qualname in ctx.P.resolve_call(c, site.fn)
                  and c.args and same_expr(c.args[0], site.task_arg)]
        if not starts:
            starts = [c for c in calls_in(site.fn.node) if st.start_method.qualname in ctx.P.resolve_call(c, site.fn)]
        ok = bool(starts) and any(g.dominates(g.primary(c), g.primary(site.call)) and g.primary(c) != g.primary(site.call) for c in starts)
        yield ctx.ob('C14.START-BEFORE-SUBMIT', ok, site.fn, site.call, 'start_task(task) dominates submit_task(task)',
                     '' if ok else 'the task is handed to the runner before the scheduler state marks it started: an interrupt between the two leaves a '
                     'running task the state still holds as pending')


@rule('C03.RUN-NO-BYPASS', ['C03', 'C01', 'C06', 'C17', 'C02'])
def run_no_bypass(ctx: Ctx):
    """Every result-returning exit of TaskCoordinator.run passes through the construction of the scheduler state: there is no
    side entrance (an "everything is cached" or "single task" fast path) that loads or runs tasks without the bookkeeping that
    merges equal tasks, marks every instance with its result_meta and releases results."""
    st = roles.state(ctx)
    run = ctx.P.func('lab.TaskCoordinator.run')
    g = ctx.cfg(run)
    ctors = [c for c in calls_in(run.node) if st.cls.qualname in ctx.P.resolve_call(c, run, by_name=False)]
    if not ctors:
        raise AnalysisError('TaskCoordinator.run does not construct the scheduler state')
    cn = [g.primary(c) for c in ctors]
    rets = [r for r in walk_local(run.node) if isinstance(r, ast.Return)]
    if not rets:
        raise AnalysisError('TaskCoordinator.run has no return statement')
    for r in rets:
        ok = any(g.dominates(c, g.primary(r)) for c in cn)
        yield ctx.ob('C03.RUN-NO-BYPASS', ok, run, r, 'return dominated by the construction of the scheduler state',
                     '' if ok else f'`{src(r)[:50]}` can be reached without the scheduler state having been built: tasks handled on that path are not '
                     'merged by equality, their instances are not all marked with result_meta, and nothing is released')


@rule('C11.QUERY-PURE', ['C11', 'C05', 'C03', 'C04', 'C17'])
def query_pure(ctx: Ctx):
    """The ready-task query only reads the scheduler state.  Tasks leave the pending set in start_task and the dependency
    relations shrink in complete_task - nowhere else: a query that drops, skips or re-labels tasks on the side leaves their
    dependents with an edge nobody will ever remove (they stay pending for ever, run_tasks spins) and their dependencies with a
    dependent nobody will complete (results are never released)."""
    st = roles.state(ctx)
    for fn in st.query:
        ws = field_writes(fn)
        # reading a defaultdict entry may insert an empty collection; that is not a logical write
        ws = [w for w in ws if w.kind not in ()]
        ok = not ws
        yield ctx.ob('C11.QUERY-PURE', ok, fn, ws[0].node if ws else fn.node, f'{fn.short} writes no scheduler state',
                     '' if ok else f'`{src(ws[0].node)[:60]}` changes the scheduler state inside the ready-task query: a task removed or re-labelled here is '
                     'never completed, so its dependents wait for ever and the results it depended on are never released')
