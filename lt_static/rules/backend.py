"""C16 (backend environment) and C02.ALIAS, C19 (log delivery), C20 (diagram)."""
from __future__ import annotations

import ast
from typing import Optional

from .. import roles
from ..dataflow import expand_locals
from ..engine import (Ctx, calls_in, cond_from_entry, cond_in_loop, early_exits, field_writes, formula_of, kwarg,
                      loop_region, memo_decorators, rule, same_expr, strip_order_preserving)
from ..formula import TRUE, atoms_of, canon, equivalent, f_not, implies, show
from ..model import PKG, AnalysisError, FuncInfo, dotted, src, walk_local
from .executor import executor


# ----------------------------------------------------------------------------------------
# C16


@rule('C16.VIA-CONTEXT', ['C16'])
def via_context(ctx: Ctx):
    """Every task process is constructed through the runner's own start-method context:
    <executor>.mp_context.Process, mp_context being what this runner's _get_mp_context() returns,
    which is multiprocessing.get_context('<method>') - no bare multiprocessing.Process, no shared cache."""
    ex = executor(ctx)
    fn = ex.topup
    sn = fn.self_name
    f = ex.construct.func
    ok = isinstance(f, ast.Attribute) and f.attr == 'Process' and isinstance(f.value, ast.Attribute) \
        and isinstance(f.value.value, ast.Name) and f.value.value.id == sn
    ctx_field = f.value.attr if ok else None
    yield ctx.ob('C16.VIA-CONTEXT', ok, fn, ex.construct, 'process constructed as self.<context>.Process(...)',
                 '' if ok else f'`{src(f)}` ignores the start-method context of the backend: the platform default start method is used '
                 '(on Linux the spawn backend would fork)')
    if not ok:
        return
    init = ctx.P.find_method(ex.cls, '__init__')
    ws = [w for m in ex.cls.methods.values() for w in field_writes(m) if w.field == ctx_field]
    ok2 = len(ws) == 1 and ws[0].fn.name == '__init__' and isinstance(ws[0].node, ast.Assign) and isinstance(ws[0].node.value, ast.Name) \
        and ws[0].node.value.id in [a.arg for a in init.params]
    pname = ws[0].node.value.id if ok2 else None
    yield ctx.ob('C16.VIA-CONTEXT', ok2, init, ws[0].node if ws else init.node, f'{ctx_field} is the constructor argument, set once',
                 '' if ok2 else f'self.{ctx_field} is not simply the constructor\'s context argument (set exactly once)')
    # the runner passes its own _get_mp_context() result
    pr = ctx.P.cls('runners.process.ProcessRunner')
    found = False
    for m in pr.methods.values():
        for call in calls_in(m.node):
            if ex.cls.qualname in ctx.P.resolve_call(call, m):
                found = True
                a = kwarg(call, pname or 'mp_context', 0)
                if isinstance(a, ast.Name):
                    # `mp_context = self._get_mp_context()` hoisted into a local of the same method
                    _g = ctx.cfg(m)
                    a = expand_locals(_g, ctx.rd(m), a, _g.primary(call))
                okc = isinstance(a, ast.Call) and isinstance(a.func, ast.Attribute) and a.func.attr == '_get_mp_context' \
                    and isinstance(a.func.value, ast.Name) and a.func.value.id == m.self_name and not a.args
                yield ctx.ob('C16.VIA-CONTEXT', okc, m, call, 'executor receives this runner\'s own _get_mp_context()',
                             '' if okc else f'the executor\'s context is `{src(a) if a is not None else "?"}`, not a fresh self._get_mp_context(): '
                             'a context shared between runner classes fixes the start method of whichever backend ran first')
    if not found:
        yield ctx.ob('C16.VIA-CONTEXT', False, None, None, 'executor construction', 'ProcessRunner never constructs the executor',
                     construct='no-executor', path='labtech/runners/process.py')
    for g in ctx.P.implementations(pr.qualname, '_get_mp_context'):
        rets = [n for n in walk_local(g.node) if isinstance(n, ast.Return)]
        okr = len(rets) == 1 and isinstance(rets[0].value, ast.Call) and dotted(rets[0].value.func) == 'multiprocessing.get_context' \
            and len(rets[0].value.args) == 1 and isinstance(rets[0].value.args[0], ast.Constant) \
            and len([s for s in g.node.body if not (isinstance(s, ast.Expr) and isinstance(s.value, ast.Constant))]) == 1
        yield ctx.ob('C16.VIA-CONTEXT', okr, g, rets[0] if rets else g.node, f'{g.short} returns multiprocessing.get_context(<literal>)',
                     '' if okr else f'{g.short} does not directly return multiprocessing.get_context(\'<method>\')')
    # no class-level context cache in the runner hierarchy
    for c in ctx.P.subclasses(pr.qualname):
        cached = [k for k in c.consts if 'context' in k.lower() and 'mp' in k.lower()]
        writes = []
        for m in c.methods.values():
            for n in walk_local(m.node):
                if isinstance(n, ast.Assign):
                    for t in n.targets:
                        d = dotted(t) or ''
                        if d.split('.')[0] in [x.name for x in ctx.P.subclasses(pr.qualname)] and 'context' in d.lower():
                            writes.append(n)
        okk = not cached and not writes
        yield ctx.ob('C16.VIA-CONTEXT', okk, None, None, f'{c.name}: no class-level start-method cache', '' if okk else
                     f'{c.name} caches a multiprocessing context at class level ({cached or [src(w) for w in writes]}): it is shared by all backends',
                     construct=f'class-cache:{c.name}', path=c.module.path)


@rule('C16.START-METHOD-TABLE', ['C16'])
def start_method_table(ctx: Ctx):
    """'fork' -> ForkRunnerBackend -> ForkProcessRunner -> get_context('fork'); 'spawn' -> ... 'spawn';
    'serial' -> SerialRunnerBackend -> SerialRunner; runners are built with the Lab's context/storage/max_workers."""
    init = ctx.P.func('lab.Lab.__init__')
    expect = {'fork': ('ForkRunnerBackend', 'ForkProcessRunner', 'fork'), 'spawn': ('SpawnRunnerBackend', 'SpawnProcessRunner', 'spawn'),
              'serial': ('SerialRunnerBackend', 'SerialRunner', None)}
    seen = {}
    for n in walk_local(init.node):
        if isinstance(n, ast.If) and isinstance(n.test, ast.Compare) and len(n.test.ops) == 1 and isinstance(n.test.ops[0], ast.Eq) \
                and isinstance(n.test.left, ast.Name) and n.test.left.id == 'runner_backend' \
                and isinstance(n.test.comparators[0], ast.Constant):
            name = n.test.comparators[0].value
            for s in n.body:
                if isinstance(s, ast.Assign) and isinstance(s.value, ast.Call):
                    cs = ctx.P.resolve_call(s.value, init)
                    seen[name] = (n, [q.rsplit('.', 1)[-1] for q in cs])
    for name, (be, rn, method) in expect.items():
        ok = name in seen and seen[name][1] == [be]
        yield ctx.ob('C16.START-METHOD-TABLE', ok, init, seen[name][0] if name in seen else init.node, f"'{name}' -> {be}()",
                     '' if ok else f"runner_backend='{name}' is mapped to {seen.get(name, (None, None))[1]}, expected {be}", construct=f'name:{name}')
        bcls = None
        for c in ctx.P.classes.values():
            if c.name == be:
                bcls = c
        if bcls is None:
            yield ctx.ob('C16.START-METHOD-TABLE', False, None, None, f'{be} exists', f'{be} not found', construct=f'backend:{be}', path='labtech/runners')
            continue
        br = bcls.methods.get('build_runner')
        okb = False
        if br is not None:
            rets = [n for n in walk_local(br.node) if isinstance(n, ast.Return)]
            if len(rets) == 1 and isinstance(rets[0].value, ast.Call):
                cs = [q.rsplit('.', 1)[-1] for q in ctx.P.resolve_call(rets[0].value, br)]
                kws = {k.arg: k.value for k in rets[0].value.keywords}
                okb = cs == [rn] and all(isinstance(kws.get(k), ast.Name) and kws[k].id == k for k in ('context', 'storage', 'max_workers'))
        yield ctx.ob('C16.START-METHOD-TABLE', okb, br, br.node if br else None, f'{be}.build_runner -> {rn}(context, storage, max_workers)',
                     '' if okb else f'{be}.build_runner does not build {rn} with the Lab\'s context, storage and max_workers', construct=f'build:{be}')
        if method is not None:
            rcls = [c for c in ctx.P.classes.values() if c.name == rn][0]
            gm = ctx.P.find_method(rcls, '_get_mp_context')
            okm = False
            if gm is not None:
                rets = [n for n in walk_local(gm.node) if isinstance(n, ast.Return)]
                okm = len(rets) == 1 and isinstance(rets[0].value, ast.Call) and rets[0].value.args \
                    and isinstance(rets[0].value.args[0], ast.Constant) and rets[0].value.args[0].value == method
            yield ctx.ob('C16.START-METHOD-TABLE', okm, gm, gm.node if gm else None, f"{rn} uses get_context('{method}')",
                         '' if okm else f"{rn}._get_mp_context does not return get_context('{method}')", construct=f'method:{rn}')


@rule('C16.ONE-PROCESS-PER-TASK', ['C16'])
def one_process_per_task(ctx: Ctx):
    """Each started future gets its own process running the child entry with that future's own thunk;
    the child entry calls the thunk exactly once and reports under the future's id."""
    ex = executor(ctx)
    fn = ex.topup
    sn = fn.self_name
    g = ctx.cfg(fn)
    rd = ctx.rd(fn)
    c = ex.construct
    tgt = kwarg(c, 'target', 1)
    kws = kwarg(c, 'kwargs', 4)
    okt = isinstance(tgt, ast.Name) and ctx.P.resolve_dotted(fn.module, tgt.id) == f'{PKG}.runners.process._subprocess_target'
    yield ctx.ob('C16.ONE-PROCESS-PER-TASK', okt, fn, c, 'process target is the child entry _subprocess_target', '' if okt else
                 f'the process target is `{src(tgt) if tgt is not None else "?"}`')
    vals = {}
    if isinstance(kws, ast.Call) and dotted(kws.func) == 'dict':
        vals = {k.arg: k.value for k in kws.keywords}
    elif isinstance(kws, ast.Dict):
        vals = {k.value: v for k, v in zip(kws.keys, kws.values) if isinstance(k, ast.Constant)}
    fv = ex.fvar
    th = vals.get('thunk')
    th_x = expand_locals(g, rd, th, g.primary(c), stop=[fv] if fv else []) if th is not None else None
    okk = fv is not None and same_expr(vals.get('future_id'), ast.parse(f'{fv}.id', mode='eval').body) \
        and th_x is not None and (same_expr(th_x, ast.parse(f'{sn}.{ex.pending}[{fv}]', mode='eval').body)
                                  or same_expr(th_x, ast.parse(f'{sn}.{ex.pending}.pop({fv})', mode='eval').body)) \
        and same_expr(vals.get('result_queue'), ast.parse(f'{sn}._result_queue', mode='eval').body)
    yield ctx.ob('C16.ONE-PROCESS-PER-TASK', bool(okk), fn, c, 'child receives this future\'s id, its own thunk and the executor\'s result queue',
                 '' if okk else f'the child is started with {dict((k, src(v)) for k, v in vals.items())}: not this future\'s own id/thunk/result queue')
    st = ctx.P.func('runners.process._subprocess_target')
    calls = [x for x in calls_in(st.node) if isinstance(x.func, ast.Name) and x.func.id == 'thunk']
    ok1 = len(calls) == 1 and roles.enclosing_loop_of(st.node, calls[0]) is None
    yield ctx.ob('C16.ONE-PROCESS-PER-TASK', ok1, st, calls[0] if calls else st.node, 'child runs its thunk exactly once', '' if ok1 else
                 'the child entry runs the thunk zero or several times')
    subm = ctx.P.find_method(ex.cls, 'submit')
    stores = [w for w in field_writes(subm) if w.field == ex.pending and w.kind == 'item_store']
    sv = None
    if stores:
        gs, rds = ctx.cfg(subm), ctx.rd(subm)
        sv = expand_locals(gs, rds, stores[0].node.value, gs.primary(stores[0].node))     # a local holding the partial is read through
    okp = bool(stores) and isinstance(sv, ast.Call) and dotted(sv.func) in ('functools.partial', 'partial') \
        and [src(a) for a in sv.args] == ['fn', '*args'] and [k.arg for k in sv.keywords] == [None]
    yield ctx.ob('C16.ONE-PROCESS-PER-TASK', okp, subm, stores[0].node if stores else subm.node, 'thunk = partial(fn, *args, **kwargs) of this submission',
                 '' if okp else 'the stored thunk is not the submitted callable with its own arguments')


@rule('C16.FORK-MEMORY', ['C16', 'C01'])
def fork_memory(ctx: Ctx):
    """_RUNNER_FORK_MEMORY[uuid] is stored in the fork runner's __init__ (context, storage and the live
    results_map), read in the child by the same uuid, and removed only in close()."""
    fr = ctx.P.cls('runners.process.ForkProcessRunner')
    init = fr.methods.get('__init__')
    sn = init.self_name
    # the registry: the module-level name the fork runner's __init__ stores a RunnerMemory into under self.uuid
    REG = None
    for n in walk_local(init.node):
        if isinstance(n, ast.Assign) and isinstance(n.targets[0], ast.Subscript) and isinstance(n.targets[0].value, ast.Name) \
                and n.targets[0].value.id in init.module.consts:
            REG = n.targets[0].value.id
    if REG is None:
        yield ctx.ob('C16.FORK-MEMORY', False, init, init.node, 'fork memory registry',
                     'ForkProcessRunner.__init__ does not register its context/storage/results in a module-level registry', construct='no-registry')
        return
    stores = []
    dels = []
    for f in ctx.P.all_functions():
        if not f.module.name.endswith('runners.process'):
            continue
        for n in walk_local(f.node):
            if isinstance(n, ast.Assign) and isinstance(n.targets[0], ast.Subscript) and dotted(n.targets[0].value) == REG:
                stores.append((f, n))
            if isinstance(n, ast.Delete) and any(isinstance(t, ast.Subscript) and dotted(t.value) == REG for t in n.targets):
                dels.append((f, n))
            if isinstance(n, ast.Call) and isinstance(n.func, ast.Attribute) and n.func.attr in ('pop', 'clear') and dotted(n.func.value) == REG:
                dels.append((f, n))
    ok = len(stores) == 1 and stores[0][0].qualname == init.qualname
    if ok:
        v = stores[0][1].value
        kws = {k.arg: k.value for k in v.keywords} if isinstance(v, ast.Call) else {}
        ok = same_expr(stores[0][1].targets[0].slice, ast.parse(f'{sn}.uuid', mode='eval').body) \
            and isinstance(kws.get('context'), ast.Name) and kws['context'].id == 'context' \
            and isinstance(kws.get('storage'), ast.Name) and kws['storage'].id == 'storage' \
            and same_expr(kws.get('results_map'), ast.parse(f'{sn}.results_map', mode='eval').body)
    yield ctx.ob('C16.FORK-MEMORY', ok, init, stores[0][1] if stores else init.node, 'fork memory registered in __init__ with context, storage, live results_map',
                 '' if ok else 'the fork runner does not register (context, storage, self.results_map) under its own uuid in __init__')
    okd = bool(dels) and all(f.name == 'close' and f.cls is not None and f.cls.qualname == fr.qualname for (f, _n) in dels)
    yield ctx.ob('C16.FORK-MEMORY', okd, dels[0][0] if dels else init, dels[0][1] if dels else init.node, 'fork memory removed only in close()',
                 '' if okd else 'the fork memory entry is removed outside close() (children forked later would not find it) or never')
    # the child-side function: the one in runners/process.py that reads REG[<uuid parameter>]
    ffn = None
    for f in ctx.P.all_functions():
        if f.module.name.endswith('runners.process') and f.qualname != init.qualname and f.name != 'close':
            for n in walk_local(f.node):
                if isinstance(n, ast.Subscript) and isinstance(n.ctx, ast.Load) and dotted(n.value) == REG \
                        and isinstance(n.slice, ast.Name) and n.slice.id in [a.arg for a in f.params]:
                    ffn = f
    okr = False
    if ffn is not None:
        g = ctx.cfg(ffn)
        rd = ctx.rd(ffn)
        calls = [c for c in calls_in(ffn.node) if kwarg(c, 'filtered_context') is not None and kwarg(c, 'results_map') is not None]
        if calls:
            kws = {k.arg: expand_locals(g, rd, k.value, g.primary(calls[0])) for k in calls[0].keywords}
            okr = same_expr(kws.get('results_map'), ast.parse(f'{REG}[uuid].results_map', mode='eval').body) \
                and same_expr(kws.get('storage'), ast.parse(f'{REG}[uuid].storage', mode='eval').body) \
                and same_expr(kws.get('filtered_context'), ast.parse(f'task.filter_context({REG}[uuid].context)', mode='eval').body) \
                and same_expr(kws.get('task'), ast.parse('task', mode='eval').body)
    yield ctx.ob('C16.FORK-MEMORY', okr, ffn, ffn.node if ffn else None, 'child reads context/storage/results_map from the memory of its own runner (uuid)',
                 '' if okr else 'the forked child does not take storage, results map and (filtered) context from _RUNNER_FORK_MEMORY[uuid]')
    sm = fr.methods.get('_submit_task')
    oku = False
    if sm is not None:
        for c in calls_in(sm.node):
            u = kwarg(c, 'uuid')
            if u is not None:
                oku = same_expr(u, ast.parse(f'{sm.self_name}.uuid', mode='eval').body)
    yield ctx.ob('C16.FORK-MEMORY', oku, sm, sm.node if sm else None, 'submission passes uuid=self.uuid', '' if oku else
                 'the fork submission does not pass the runner\'s own uuid')


@rule('C02.ALIAS', ['C02', 'C01'])
def results_alias(ctx: Ctx):
    """The process runners' results_map is never rebound outside __init__ (forked children and the fork
    memory alias the very dict the parent fills)."""
    pr = ctx.P.cls('runners.process.ProcessRunner')
    from .runners import results_field
    fld = results_field(ctx, pr)
    n = 0
    for c in ctx.P.subclasses(pr.qualname):
        for m in c.methods.values():
            for w in field_writes(m):
                if w.field == fld and w.kind == 'rebind':
                    n += 1
                    ok = m.name == '__init__' and c.qualname == pr.qualname
                    yield ctx.ob('C02.ALIAS', ok, m, w.node, f'{fld} bound in {m.short}', '' if ok else
                                 f'`{src(w.node)[:60]}` rebinds {fld}: the dict registered in the fork memory (and seen by forked children) is no longer '
                                 'the one the parent stores results into')
    if n == 0:
        shared = [c for c in ctx.P.subclasses(pr.qualname) if fld in c.consts]
        if not shared:
            raise AnalysisError(f'{fld} is never initialised in ProcessRunner.__init__')
        for c in shared:
            yield ctx.ob('C02.ALIAS', False, None, None, f'{fld} created per runner in __init__',
                         f'{c.name}.{fld} = {src(c.consts[fld])[:30]} is a class attribute: every runner of the process shares one results map, so results '
                         'left behind by an aborted run are read as dependency results by the next run', construct=f'{c.name}.{fld}', path=c.module.path)


# ----------------------------------------------------------------------------------------
# C19


def _drain_method(ctx: Ctx) -> FuncInfo:
    """The function (method of the process runner, or a module-level helper it calls) that takes records off
    the log queue."""
    for f in ctx.P.all_functions():
        if not f.module.name.endswith('runners.process'):
            continue
        for c in calls_in(f.node):
            if isinstance(c.func, ast.Attribute) and c.func.attr in ('get_nowait', 'get') and 'log_queue' in src(c.func.value):
                return f
    raise AnalysisError('no function in runners/process.py takes records off the log queue')


@rule('C19.DRAIN-AFTER-WAIT', ['C19'])
def drain_after_wait(ctx: Ctx):
    """After executor.wait() returns, the log queue is drained on every normal path before outcomes are
    yielded / the call returns."""
    pr = ctx.P.cls('runners.process.ProcessRunner')
    w = ctx.P.find_method(pr, 'wait')
    dm = _drain_method(ctx)
    g = ctx.cfg(w)
    ex = executor(ctx)
    ew = ctx.P.find_method(ex.cls, 'wait')
    waits = [c for c in calls_in(w.node) if ew.qualname in ctx.P.resolve_call(c, w)]
    drains = [c for c in calls_in(w.node) if dm.qualname in ctx.P.resolve_call(c, w)]
    if not waits:
        raise AnalysisError('ProcessRunner.wait does not call executor.wait')
    wn = g.primary(waits[0])
    after = [g.primary(d) for d in drains if g.dominates(wn, g.primary(d)) and g.primary(d) != wn]
    yields = [g.primary(n) for n in walk_local(w.node) if isinstance(n, ast.Expr) and isinstance(n.value, ast.Yield)]
    ok = bool(after) and g.must_pass(wn, after, [g.exit] + yields, exc=False)
    closes = []
    for c in ctx.P.subclasses(pr.qualname):
        m = c.methods.get('close')
        if m is not None and any(dm.qualname in ctx.P.resolve_call(x, m) for x in calls_in(m.node)):
            closes.append(m)
    yield ctx.ob('C19.DRAIN-AFTER-WAIT', ok, w, drains[-1] if drains else w.node, 'log queue drained after executor.wait()',
                 '' if ok else 'the log queue is drained only before executor.wait(): records logged by the tasks that finish in the last '
                 'polling round are still on the queue when run_tasks returns')


@rule('C19.FLUSH-BEFORE-RETURN', ['C19'])
def flush_before_return(ctx: Ctx):
    """The worker flushes the stdout and stderr proxies on every path (normal or exceptional) before its
    outcome leaves the worker entry function."""
    we = roles.worker_entry(ctx)
    g = ctx.cfg(we)
    for stream in ('stdout', 'stderr'):
        inst = [n for n in walk_local(we.node) if isinstance(n, ast.Assign) and dotted(n.targets[0]) == f'sys.{stream}']
        flushes = [c for c in calls_in(we.node) if dotted(c.func) == f'sys.{stream}.flush']
        if not inst:
            yield ctx.ob('C19.FLUSH-BEFORE-RETURN', False, we, we.node, f'sys.{stream} proxy', f'sys.{stream} is not replaced by a logging proxy in the worker',
                         construct=f'no-proxy:{stream}')
            continue
        if not flushes:
            yield ctx.ob('C19.FLUSH-BEFORE-RETURN', False, we, we.node, f'sys.{stream}.flush()', f'the worker never flushes sys.{stream}: captured output is '
                         'only emitted at interpreter shutdown, after the outcome was shipped (or never)', construct=f'no-flush:{stream}')
            continue
        # start after both proxies are installed; flush() calls themselves are taken not to raise
        all_inst = [n for n in walk_local(we.node) if isinstance(n, ast.Assign) and (dotted(n.targets[0]) or '') in ('sys.stdout', 'sys.stderr')]
        start = max((g.primary(n) for n in all_inst), key=lambda nid: len(g.dominators().get(nid, ())))
        fn_nodes = []
        for f in flushes:
            fn_nodes.extend(g.nodes_of(_stmt_of(we, f)))
        any_flush = []
        for f in [c for c in calls_in(we.node) if (dotted(c.func) or '') in ('sys.stdout.flush', 'sys.stderr.flush')]:
            any_flush.extend(g.nodes_of(_stmt_of(we, f)))
        no_raise = [(n, t) for n in any_flush for (t, lab) in g.succ[n] if lab == 'exc']
        # bindings that cannot fail (`current_process = multiprocessing.current_process()`) are not exits either
        from ..engine import cannot_raise
        for nd in g.nodes:
            if nd.kind == 'stmt' and nd.ast is not None and cannot_raise(ctx, we, nd.ast):
                no_raise.extend((nd.id, t) for (t, lab) in g.succ.get(nd.id, []) if lab == 'exc')
        succs = [t for (t, lab) in g.succ[start] if lab != 'exc']
        ok = all(not (g.reachable([s], avoid=fn_nodes, exc=True, avoid_edges=no_raise) & {g.exit, g.raise_exit}) for s in succs)
        yield ctx.ob('C19.FLUSH-BEFORE-RETURN', ok, we, flushes[0], f'sys.{stream} flushed on every path out of the worker',
                     '' if ok else f'a path leaves the worker (e.g. when the task raises) without flushing sys.{stream}: what a failing task printed is lost')


def _stmt_of(fn: FuncInfo, node: ast.AST) -> ast.stmt:
    from ..engine import enclosing_stmt_map
    m = enclosing_stmt_map(fn.node)
    return m.get(id(node), node)


@rule('C19.EMIT-THEN-CLEAR', ['C19'])
def emit_then_clear(ctx: Ctx):
    """LoggerFileProxy.flush emits everything write() buffered and resets it on that path; write() keeps
    every non-whitespace fragment in state that flush() emits."""
    c = ctx.P.cls('utils.LoggerFileProxy')
    fl = c.methods.get('flush')
    wr = c.methods.get('write')
    if fl is None or wr is None:
        raise AnalysisError('LoggerFileProxy lacks write/flush')
    sn = fl.self_name
    g = ctx.cfg(fl)
    emits = [x for x in calls_in(fl.node) if isinstance(x.func, ast.Attribute) and x.func.attr == 'logger_func']
    if not emits:
        yield ctx.ob('C19.EMIT-THEN-CLEAR', False, fl, fl.node, 'emission', 'flush() never calls logger_func', construct='no-emit')
        return
    read = {n.attr for n in ast.walk(emits[0]) if isinstance(n, ast.Attribute) and isinstance(n.value, ast.Name) and n.value.id == sn
            and n.attr not in ('logger_func', 'prefix')}
    # local names feeding the emission
    for n in walk_local(fl.node):
        if isinstance(n, ast.Attribute) and isinstance(n.value, ast.Name) and n.value.id == sn and isinstance(n.ctx, ast.Load) \
                and n.attr not in ('logger_func', 'prefix'):
            read.add(n.attr)
    resets = [w for w in field_writes(fl) if w.field in read and w.kind in ('rebind', 'mutcall:clear')]
    en = g.primary(emits[0])
    ok = bool(resets) and any(not (g.reachable([en], avoid=[g.primary(w.node)], exc=False, include_starts=False) & {g.exit}) for w in resets)
    yield ctx.ob('C19.EMIT-THEN-CLEAR', ok, fl, emits[0], 'buffer reset after it was emitted', '' if ok else
                 'flush() emits the buffer but keeps it: every later flush re-emits everything written so far')
    # a flush with something buffered emits it: the emission is not made to wait for anything but the buffer being non-empty.
    # (A dormant rate limit whose tunable has a zero class-level default and is set nowhere in the package is accepted.)
    buf_fields = sorted(read & {w.field for w in field_writes(wr)})
    empties = [formula_of(ctx, fl, t.format(sn=sn, f=f)) for f in buf_fields for t in ('not {sn}.{f}', 'len({sn}.{f}) == 0')]
    en0 = g.primary(emits[0])
    tests = [n.id for n in g.nodes if n.kind == 'test']
    skips = []      # (test node, polarity): branches that leave flush() without emitting and without asking anything further
    for t in tests:
        for (sx, lab) in g.succ.get(t, []):
            if lab not in ('true', 'false'):
                continue
            if sx == g.exit or g.exit in g.reachable([sx], avoid=[en0] + tests, exc=False, include_starts=True) and sx != en0 and sx not in tests:
                skips.append((t, lab == 'true'))
    bad_skips = []
    for (t, pol) in skips:
        f0 = ctx.fb(fl).build(g.node(t).ast)
        f0 = f0 if pol else f_not(f0)
        if not any(implies(f0, e) for e in empties):
            bad_skips.append((t, pol, f0))
    ec = f_not(bad_skips[0][2]) if bad_skips else TRUE
    plain = not bad_skips
    if not plain:
        tunables = set()
        for t in [n for n in walk_local(fl.node) if isinstance(n, (ast.If, ast.While))]:
            for n in ast.walk(t.test):
                if isinstance(n, ast.Attribute) and isinstance(n.value, ast.Name) and n.value.id == sn and n.attr not in buf_fields:
                    tunables.add(n.attr)
        tuned = []
        for k in sorted(tunables):
            dflt = c.consts.get(k)
            zero = isinstance(dflt, ast.Constant) and isinstance(dflt.value, (int, float)) and not isinstance(dflt.value, bool) and dflt.value == 0
            setters = [n for f in ctx.P.all_functions() if f.cls is None or f.cls.qualname != c.qualname for n in walk_local(f.node)
                       if isinstance(n, ast.Attribute) and n.attr == k and isinstance(n.ctx, ast.Store)]
            own = [w for m in c.methods.values() for w in field_writes(m) if w.field == k]
            if k in c.consts and zero and not setters and not own:
                continue
            if k in c.consts:
                tuned.append((k, setters[0] if setters else None))
        dormant = bool(tunables) and not tuned and all(k in c.consts or any(w.field == k for m in c.methods.values() for w in field_writes(m)) for k in tunables) \
            and any(k in c.consts for k in tunables)
        plain = dormant
    yield ctx.ob('C19.EMIT-THEN-CLEAR', plain, fl, emits[0], 'flush() emits whenever something is buffered', '' if plain else
                 f'flush() returns without emitting when {show(bad_skips[0][2]) if bad_skips else "?"}: a flush that finds output buffered can return without delivering it, and the final flush '
                 'of a task is the only thing that delivers the tail of its output')
    written = {w.field for w in field_writes(wr)}
    lost = written - read
    yield ctx.ob('C19.EMIT-THEN-CLEAR', not lost, wr, wr.node, f'flush() emits all state written by write() ({sorted(written)})',
                 '' if not lost else f'write() accumulates into {sorted(lost)}, which flush() never emits: output without a trailing newline is lost')
    apps = [w for w in field_writes(wr) if w.kind in ('mutcall:append', 'mutcall:extend')]
    okw = False
    if apps:
        cnd = cond_from_entry(ctx, wr, apps[0].node)
        okw = all(a[0] == 'atom' and a[1] == 'call' and 'fullmatch' in a[2][0] for a in atoms_of(cnd)) and len(atoms_of(cnd)) <= 1
        bp = [a.arg for a in wr.params if a.arg != wr.self_name][0]
        okw = okw and apps[0].node.args and isinstance(apps[0].node.args[0], ast.Name) and apps[0].node.args[0].id == bp
    yield ctx.ob('C19.EMIT-THEN-CLEAR', okw, wr, apps[0].node if apps else wr.node, 'write() buffers every non-whitespace fragment as given', '' if okw else
                 'write() does not append every non-whitespace fragment to the buffer', construct='write-appends')


def _is_stock_queue_handler(ctx: Ctx, fn: FuncInfo, f: ast.AST) -> bool:
    """logging.handlers.QueueHandler itself, or a package subclass that leaves record preparation and delivery alone
    (`prepare` is what makes a record with exc_info / arbitrary args picklable; `emit` / `enqueue` / `handle` are the path
    onto the queue): an override of one of them decides which records survive the trip to the main process."""
    d = dotted(f) or ''
    r = ctx.P.resolve_dotted(fn.module, d) if d else None
    if r in ('logging.handlers.QueueHandler',):
        return True
    c = ctx.P.classes.get(r or '')
    if c is None:
        return d.endswith('QueueHandler') and r is None
    if not any(b.endswith('QueueHandler') for b in c.bases):
        return False
    return not (set(c.methods) & {'prepare', 'emit', 'enqueue', 'handle', 'filter', 'format'})


@rule('C19.WORKER-LOG-SETUP', ['C19'])
def worker_log_setup(ctx: Ctx):
    """In the worker: inherited handlers are dropped, exactly one QueueHandler(log_queue) is added, both
    proxies are installed - all before the task executes."""
    we = roles.worker_entry(ctx)
    g = ctx.cfg(we)
    from .runners import rolt
    runs = [c for c in calls_in(we.node) if rolt(ctx).qualname in ctx.P.resolve_call(c, we)]
    rn = g.primary(runs[0])
    resets = [n for n in walk_local(we.node) if isinstance(n, ast.Assign) and dotted(n.targets[0]) == 'logger.handlers'
              and isinstance(n.value, (ast.List, ast.Tuple)) and not n.value.elts]
    resets += [c for c in calls_in(we.node) if dotted(c.func) in ('logger.handlers.clear',)]
    adds = [c for c in calls_in(we.node) if dotted(c.func) == 'logger.addHandler']
    ok = len(resets) == 1 and len(adds) == 1
    if ok:
        a = adds[0].args[0] if adds[0].args else None
        ok = isinstance(a, ast.Call) and _is_stock_queue_handler(ctx, we, a.func) and a.args and isinstance(a.args[0], ast.Name) \
            and a.args[0].id == 'log_queue' and g.dominates(g.primary(resets[0]), g.primary(adds[0])) and g.dominates(g.primary(adds[0]), rn) \
            and roles.enclosing_loop_of(we.node, adds[0]) is None
    yield ctx.ob('C19.WORKER-LOG-SETUP', ok, we, adds[0] if adds else we.node, 'logger.handlers reset, then exactly one QueueHandler(log_queue)',
                 '' if ok else 'the worker does not replace the inherited handlers by exactly one QueueHandler(log_queue) before running the task: '
                 'records are delivered twice (inherited handler + queue) or not at all')
    for (stream, fnname) in (('stdout', 'info'), ('stderr', 'error')):
        inst = [n for n in walk_local(we.node) if isinstance(n, ast.Assign) and dotted(n.targets[0]) == f'sys.{stream}']
        okp = len(inst) == 1 and isinstance(inst[0].value, ast.Call) and (dotted(inst[0].value.func) or '').endswith('LoggerFileProxy') \
            and inst[0].value.args and (dotted(inst[0].value.args[0]) or '').startswith('logger.') and g.dominates(g.primary(inst[0]), rn)
        yield ctx.ob('C19.WORKER-LOG-SETUP', okp, we, inst[0] if inst else we.node, f'sys.{stream} proxied to the labtech logger before the task runs',
                     '' if okp else f'sys.{stream} is not redirected to the labtech logger before the task runs')


@rule('C19.CONSUME-ALL', ['C19'])
def consume_all(ctx: Ctx):
    """The drain takes records until the queue is empty (unbounded loop, only exit: queue.Empty) and hands
    each to logging.getLogger(record.name).handle(record)."""
    dm = _drain_method(ctx)
    loops = [lp for lp in walk_local(dm.node) if isinstance(lp, (ast.While, ast.For))]
    if not loops:
        yield ctx.ob('C19.CONSUME-ALL', False, dm, dm.node, 'drain loop', 'the drain takes at most one record per call', construct='no-loop')
        return
    lp = loops[0]
    unbounded = isinstance(lp, ast.While) and isinstance(lp.test, ast.Constant) and bool(lp.test.value)
    yield ctx.ob('C19.CONSUME-ALL', unbounded, dm, lp, 'unbounded drain loop (while True)', '' if unbounded else
                 f'the drain loop `{src(lp).splitlines()[0]}` is bounded: a burst of records from the last task to finish is only partly delivered '
                 'before run_tasks returns')
    exits = early_exits(lp, allow_raise=False, allow_continue=False)
    ok_exit = bool(exits)
    for e in exits:
        in_empty = False
        for t in [t for t in walk_local(lp) if isinstance(t, ast.Try)]:
            for h in t.handlers:
                if h.type is not None and (dotted(h.type) or '').split('.')[-1] == 'Empty' and any(x is e for x in ast.walk(h)):
                    in_empty = True
        ok_exit = ok_exit and in_empty
    yield ctx.ob('C19.CONSUME-ALL', ok_exit, dm, exits[0] if exits else lp, 'the only exit of the drain loop is queue.Empty', '' if ok_exit else
                 'the drain loop can stop while records remain on the queue (or never stops)')
    hs = [c for c in calls_in(lp) if isinstance(c.func, ast.Attribute) and c.func.attr == 'handle']
    okh = False
    if hs:
        g = ctx.cfg(dm)
        stop = [hs[0].args[0].id] if hs[0].args and isinstance(hs[0].args[0], ast.Name) else []
        recv = expand_locals(g, ctx.rd(dm), hs[0].func.value, g.primary(hs[0]), stop=stop)
        okh = isinstance(recv, ast.Call) and dotted(recv.func) == 'logging.getLogger' and recv.args and src(recv.args[0]).endswith('.name') \
            and hs[0].args and isinstance(hs[0].args[0], ast.Name) and src(recv.args[0]).startswith(hs[0].args[0].id + '.') \
            and cond_in_loop(ctx, dm, lp, hs[0]) == TRUE
    yield ctx.ob('C19.CONSUME-ALL', okh, dm, hs[0] if hs else lp, 'every record -> logging.getLogger(record.name).handle(record)', '' if okh else
                 'a record taken off the queue is not (always) handed to the logger it was emitted on')


@rule('C19.LOG-QUEUE-MANAGED', ['C19'])
def log_queue_managed(ctx: Ctx):
    """The log queue is a manager queue (`<...>.Manager().Queue(...)`): its put() returns only after the manager process holds
    the record, so a record survives the death of the worker that emitted it and is there when the parent drains after the
    worker's result.  A plain multiprocessing.Queue hands records to a feeder thread of the worker: put() returns before the
    record left the process, and a worker that dies (or the last one to finish) loses or delays them."""
    pr = ctx.P.cls('runners.process.ProcessRunner')
    ws = [w for c in ctx.P.subclasses(pr.qualname) for m in c.methods.values() for w in field_writes(m)
          if w.field == 'log_queue' and w.kind == 'rebind']
    if not ws:
        raise AnalysisError('no assignment to the process runner\'s log_queue found')
    for w in ws:
        g = ctx.cfg(w.fn)
        v = getattr(w.node, 'value', None)
        if v is not None:
            v = expand_locals(g, ctx.rd(w.fn), v, g.primary(w.node))
        ok = isinstance(v, ast.Call) and isinstance(v.func, ast.Attribute) and v.func.attr == 'Queue' \
            and isinstance(v.func.value, ast.Call) and (dotted(v.func.value.func) or src(v.func.value.func)).split('.')[-1] == 'Manager'
        yield ctx.ob('C19.LOG-QUEUE-MANAGED', ok, w.fn, w.node, 'log_queue = <...>.Manager().Queue(...)', '' if ok else
                     f'the log queue is `{src(v) if v is not None else "?"}`, not a manager queue: put() returns before the record has left the worker, '
                     'so records of a worker that dies, or of the last task to finish, can be lost or arrive after run_tasks returned')


@rule('C19.SAME-QUEUE', ['C19'])
def same_queue(ctx: Ctx):
    """The log_queue the worker logs onto is the runner's own self.log_queue that wait() drains."""
    pr = ctx.P.cls('runners.process.ProcessRunner')
    st = ctx.P.find_method(pr, 'submit_task')
    dm = _drain_method(ctx)
    ok = False
    for c in calls_in(st.node):
        lq = kwarg(c, 'log_queue')
        if lq is not None:
            ok = same_expr(lq, ast.parse(f'{st.self_name}.log_queue', mode='eval').body)
    if dm.self_name:
        drained = any(isinstance(c.func, ast.Attribute) and same_expr(c.func.value, ast.parse(f'{dm.self_name}.log_queue', mode='eval').body)
                      for c in calls_in(dm.node))
    else:
        # module-level drain(log_queue): every call passes the runner's own queue
        w = ctx.P.find_method(pr, 'wait')
        dcalls = [c for c in calls_in(w.node) if dm.qualname in ctx.P.resolve_call(c, w)]
        # the parameter of the drain function that is polled, and what each call binds to it (positionally or by keyword)
        qparams = [c.func.value.id for c in calls_in(dm.node) if isinstance(c.func, ast.Attribute) and c.func.attr in ('get', 'get_nowait')
                   and isinstance(c.func.value, ast.Name)]
        plist = [a.arg for a in dm.node.args.posonlyargs + dm.node.args.args]
        want = ast.parse(f'{w.self_name}.log_queue', mode='eval').body

        def bound(c: ast.Call):
            if not qparams:
                return None
            v = kwarg(c, qparams[0])
            if v is None and qparams[0] in plist and plist.index(qparams[0]) < len(c.args):
                v = c.args[plist.index(qparams[0])]
            return v
        drained = bool(dcalls) and all(same_expr(bound(c), want) for c in dcalls)
    yield ctx.ob('C19.SAME-QUEUE', ok and drained, st, st.node, 'submit_task passes self.log_queue, which the drain reads', '' if ok and drained else
                 'the queue handed to workers is not the one the runner drains')
    for f in ctx.P.implementations(pr.qualname, '_submit_task'):
        okf = False
        for c in calls_in(f.node):
            lq = kwarg(c, 'log_queue')
            if lq is not None:
                okf = isinstance(lq, ast.Name) and lq.id == 'log_queue'
        yield ctx.ob('C19.SAME-QUEUE', okf, f, f.node, f'{f.short} forwards its log_queue parameter', '' if okf else
                     f'{f.short} does not forward the log queue it was given to the worker')


# ----------------------------------------------------------------------------------------
# C20


@rule('C20.WORKLIST-CLOSURE', ['C20'])
def worklist_closure(ctx: Ctx):
    """TaskStructure.build: every popped task is registered, every result of the dependency search is
    appended to the worklist unfiltered, and the loop ends only when the worklist is empty."""
    fn = ctx.P.func('diagram.TaskStructure.build')
    g = ctx.cfg(fn)
    loops = [lp for lp in walk_local(fn.node) if isinstance(lp, ast.While)]
    if not loops:
        yield ctx.ob('C20.WORKLIST-CLOSURE', False, fn, fn.node, 'worklist loop', 'build() has no worklist loop', construct='no-loop')
        return
    lp = loops[0]
    pops = [c for c in calls_in(lp) if isinstance(c.func, ast.Attribute) and c.func.attr in ('pop', 'popleft') and isinstance(c.func.value, ast.Name)]
    if not pops:
        yield ctx.ob('C20.WORKLIST-CLOSURE', False, fn, lp, 'pop from the worklist', 'the loop does not pop tasks from a worklist', construct='no-pop')
        return
    W = pops[0].func.value.id
    tv = None
    for n in walk_local(lp):
        if isinstance(n, ast.Assign) and n.value is pops[0] and isinstance(n.targets[0], ast.Name):
            tv = n.targets[0].id
    exits = early_exits(lp, allow_raise=True, allow_continue=True)
    ok_exit = isinstance(lp.test, ast.Constant) and bool(lp.test.value) and bool(exits)
    for e in exits:
        in_idx = False
        for t in [t for t in walk_local(lp) if isinstance(t, ast.Try)]:
            if any(x is pops[0] for b in t.body for x in ast.walk(b)):
                for h in t.handlers:
                    if h.type is not None and dotted(h.type) == 'IndexError' and any(x is e for x in ast.walk(h)):
                        in_idx = True
        ok_exit = ok_exit and in_idx
    if not (isinstance(lp.test, ast.Constant)):
        ok_exit = equivalent(formula_of(ctx, fn, lp.test), formula_of(ctx, fn, f'len({W}) > 0')) and not exits
    yield ctx.ob('C20.WORKLIST-CLOSURE', ok_exit, fn, exits[0] if exits else lp, 'loop ends only when the worklist is empty', '' if ok_exit else
                 'the traversal can stop while tasks remain on the worklist')
    regs = [c for c in calls_in(lp) if isinstance(c.func, ast.Attribute) and c.func.attr == 'add_task_type']
    okr = bool(regs) and tv is not None and same_expr(regs[0].args[0], ast.parse(f'type({tv})', mode='eval').body) \
        and cond_in_loop(ctx, fn, lp, regs[0]) == TRUE
    yield ctx.ob('C20.WORKLIST-CLOSURE', bool(okr), fn, regs[0] if regs else lp, 'every popped task registers its type', '' if okr else
                 'a visited task does not (always) get a class block')
    ftp = ctx.P.func('tasks.find_tasks_in_param')
    srch = [c for c in calls_in(lp) if ftp.qualname in ctx.P.resolve_call(c, fn)]
    flds = [l2 for l2 in walk_local(lp) if isinstance(l2, ast.For) and isinstance(l2.iter, ast.Call) and dotted(l2.iter.func) == 'fields'
            and l2.iter.args and isinstance(l2.iter.args[0], ast.Name) and l2.iter.args[0].id == tv]
    oks = bool(srch) and bool(flds) and not early_exits(flds[0], allow_raise=True, allow_continue=False) \
        and cond_in_loop(ctx, fn, lp, flds[0]) == TRUE and cond_in_loop(ctx, fn, flds[0], srch[0]) == TRUE
    yield ctx.ob('C20.WORKLIST-CLOSURE', oks, fn, srch[0] if srch else lp, 'every field of every visited task is searched', '' if oks else
                 'not every parameter of every visited task is searched for sub-tasks')
    S = None
    for n in walk_local(lp):
        if isinstance(n, ast.Assign) and srch and n.value is srch[0] and isinstance(n.targets[0], ast.Name):
            S = n.targets[0].id
    ext = []
    for n in walk_local(lp):
        if isinstance(n, ast.AugAssign) and isinstance(n.op, ast.Add) and isinstance(n.target, ast.Name) and n.target.id == W:
            ext.append((n, n.value))
        if isinstance(n, ast.Call) and isinstance(n.func, ast.Attribute) and n.func.attr == 'extend' and isinstance(n.func.value, ast.Name) \
                and n.func.value.id == W and n.args:
            ext.append((n, n.args[0]))
    oke = False
    if ext and S and flds:
        node, val = ext[0]
        oke = isinstance(val, ast.Name) and val.id == S and cond_in_loop(ctx, fn, flds[0], node) == TRUE
    yield ctx.ob('C20.WORKLIST-CLOSURE', oke, fn, ext[0][0] if ext else lp, 'all found sub-tasks are appended to the worklist', '' if oke else
                 'found sub-tasks are filtered (or not appended) before they reach the worklist: deeper types and relationships go missing')


@rule('C20.REL-ALL', ['C20'])
def rel_all(ctx: Ctx):
    """add_relationship is reached for every (field, sub-task) pair with from=type(task), param=field.name,
    to=type(sub_task), multi_cardinality = not is_task(param_value)."""
    fn = ctx.P.func('diagram.TaskStructure.build')
    rels = [c for c in calls_in(fn.node) if isinstance(c.func, ast.Attribute) and c.func.attr == 'add_relationship']
    if not rels:
        yield ctx.ob('C20.REL-ALL', False, fn, fn.node, 'add_relationship', 'build() never registers a relationship', construct='no-rel')
        return
    r = rels[0]
    lp = roles.enclosing_loop_of(fn.node, r)
    ok = isinstance(lp, ast.For) and isinstance(lp.target, ast.Name) and not early_exits(lp, allow_raise=True, allow_continue=False) \
        and cond_in_loop(ctx, fn, lp, r) == TRUE and isinstance(lp.iter, ast.Name)
    yield ctx.ob('C20.REL-ALL', bool(ok), fn, r, 'one relationship per found sub-task', '' if ok else 'not every found sub-task produces a relationship')
    if not ok:
        return
    sv = lp.target.id
    # the enclosing field loop and the popped task
    outer = None
    for l2 in walk_local(fn.node):
        if isinstance(l2, ast.For) and l2 is not lp and any(x is lp for x in ast.walk(l2)):
            outer = l2
    fv = outer.target.id if outer is not None and isinstance(outer.target, ast.Name) else None
    tvn = outer.iter.args[0].id if outer is not None and isinstance(outer.iter, ast.Call) and outer.iter.args and isinstance(outer.iter.args[0], ast.Name) else None
    g = ctx.cfg(fn)
    rd = ctx.rd(fn)
    kws = {k.arg: k.value for k in r.keywords}
    # hoisted loop invariants (`task_type = type(task)`, `many = not is_task(param_value)`) are read through
    _pvn = None
    _d0 = rd.single_def(g.primary(lp), lp.iter.id) if isinstance(lp.iter, ast.Name) else None
    _dv0 = rd.def_value(_d0, lp.iter.id) if _d0 is not None else None
    if _dv0 and _dv0[0] == 'value' and isinstance(_dv0[1], ast.Call) and _dv0[1].args and isinstance(_dv0[1].args[0], ast.Name):
        _pvn = _dv0[1].args[0].id
    _stop = [x for x in (outer.target.id if outer is not None and isinstance(outer.target, ast.Name) else None,
                         outer.iter.args[0].id if outer is not None and isinstance(outer.iter, ast.Call) and outer.iter.args
                         and isinstance(outer.iter.args[0], ast.Name) else None, sv, _pvn) if x]
    kws = {k: expand_locals(g, rd, v, g.primary(r), stop=_stop) for k, v in kws.items() if k is not None}
    pv = None
    # param_value = getattr(task, field.name); sub_tasks = find_tasks_in_param(param_value)
    d = rd.single_def(g.primary(lp), lp.iter.id)
    dv = rd.def_value(d, lp.iter.id) if d is not None else None
    if dv and dv[0] == 'value' and isinstance(dv[1], ast.Call) and dv[1].args:
        pv = dv[1].args[0]
    pv_x = expand_locals(g, rd, pv, d, stop=[x for x in (tvn, fv) if x]) if pv is not None and d is not None else None
    okv = fv is not None and tvn is not None and pv_x is not None and same_expr(pv_x, ast.parse(f'getattr({tvn}, {fv}.name)', mode='eval').body)
    oka = okv and same_expr(kws.get('from_task_type'), ast.parse(f'type({tvn})', mode='eval').body) \
        and same_expr(kws.get('from_param_name'), ast.parse(f'{fv}.name', mode='eval').body) \
        and same_expr(kws.get('to_task_type'), ast.parse(f'type({sv})', mode='eval').body)
    yield ctx.ob('C20.REL-ALL', bool(oka), fn, r, 'relationship = (type(task), field.name, type(sub_task))', '' if oka else
                 'the relationship is not registered between the visited task\'s type, the field searched and the found sub-task\'s type')
    mc = kws.get('multi_cardinality')
    okm = False
    if mc is not None and pv is not None:
        have = formula_of(ctx, fn, mc)
        need = formula_of(ctx, fn, f'not is_task({src(pv)})')
        okm = equivalent(have, need)
    yield ctx.ob('C20.REL-ALL', okm, fn, mc or r, 'many <=> the parameter value is not itself a task', '' if okm else
                 f'multi_cardinality is `{src(mc) if mc is not None else "?"}`, expected `not is_task(<parameter value>)`')


@rule('C20.CARDINALITY', ['C20'])
def cardinality(ctx: Ctx):
    """add_relationship stores, for a new key, the observed cardinality and, for an existing key, OR(old, new)."""
    fn = ctx.P.func('diagram.TaskStructure.add_relationship')
    g = ctx.cfg(fn)
    rd = ctx.rd(fn)
    fb = ctx.fb(fn)
    stores = [n for n in walk_local(fn.node) if isinstance(n, ast.Assign) and isinstance(n.targets[0], ast.Subscript)]
    sd = [c for c in calls_in(fn.node) if isinstance(c.func, ast.Attribute) and c.func.attr == 'setdefault' and len(c.args) == 2]
    if sd and not stores:
        yield ctx.ob('C20.CARDINALITY', False, fn, sd[0], 'merge of cardinality observations',
                     'add_relationship keeps only the first observation (setdefault): an arrow is marked "many" only if the first-seen instance held a collection')
        return
    if not stores:
        yield ctx.ob('C20.CARDINALITY', False, fn, fn.node, 'relationship store', 'add_relationship never stores a relationship', construct='stores')
        return
    from ..formula import atoms_of, ev, f_and, f_or, valuations, truthy_atom
    new_atom = truthy_atom(ast.Name(id='multi_cardinality', ctx=ast.Load()))

    def multi_expr(val):
        """the multi_cardinality expression of a stored TaskRelInfo(...) (through locals)"""
        v = expand_locals(g, rd, val, g.primary(st), stop=['multi_cardinality'])
        if isinstance(v, ast.Call):
            for k in v.keywords:
                if k.arg == 'multi_cardinality':
                    return k.value
            if v.args:
                return v.args[0]
        return None
    cases = []   # (path condition formula, stored-multi formula)
    for st in stores:
        c = cond_from_entry(ctx, fn, st)
        e = multi_expr(st.value)
        if e is None:
            yield ctx.ob('C20.CARDINALITY', False, fn, st, 'stored relationship info', f'`{src(st)[:70]}` does not store a TaskRelInfo with a multi_cardinality')
            return
        class _Proj(ast.NodeTransformer):
            # Ctor(field=X).field -> X
            def visit_Attribute(self, node):
                self.generic_visit(node)
                if isinstance(node.value, ast.Call):
                    for k in node.value.keywords:
                        if k.arg == node.attr:
                            return k.value
                return node
        ee = _Proj().visit(expand_locals(g, rd, e, g.primary(st), stop=['multi_cardinality']))
        # the observed flag may have been re-assigned before the store (`if old is not None: many = old.many or many`):
        # one case per reaching definition, each under the condition of its assignment
        defs = rd.reaching(g.primary(st), 'multi_cardinality')
        non_entry = [d for d in defs if d != g.entry]
        uses_flag = any(isinstance(x, ast.Name) and x.id == 'multi_cardinality' for x in ast.walk(ee))
        if non_entry and uses_flag:
            from ..engine import substitute
            from ..formula import f_not as _fnot
            conds = []
            for d in non_entry:
                dv = rd.def_value(d, 'multi_cardinality')
                dst = g.node(d).ast
                if not dv or dv[0] != 'value' or dst is None:
                    continue
                cd = cond_from_entry(ctx, fn, dst)
                val = expand_locals(g, rd, dv[1], d, stop=['multi_cardinality'])
                e_d = _Proj().visit(substitute(ee, {'multi_cardinality': val}))
                cases.append((f_and(c, cd), fb.build(e_d)))
                conds.append(cd)
            if g.entry in defs:
                cases.append((f_and(c, _fnot(f_or(*conds))), fb.build(ee)))
        else:
            cases.append((c, fb.build(ee)))
    # atoms: presence of the key (`key in rels`, or `rels.get(key)` / old info not None), the old flag, the new flag
    allat = set()
    for c, f in cases:
        allat |= atoms_of(c) | atoms_of(f)
    allat.add(new_atom)

    def role(a):
        t = repr(a)
        if a == new_atom:
            return 'new'
        if a[0] == 'atom' and a[1] == 'in':
            return 'present'
        if a[0] == 'atom' and a[1] == 'isnone':
            return 'absent'
        if 'multi_cardinality' in t:
            return 'old'
        return 'other'
    roles_ = {a: role(a) for a in allat}
    ok_new = ok_merge = True
    seen_new = seen_merge = False
    for v in valuations(allat):
        pres = [v[a] for a in allat if roles_[a] == 'present'] + [not v[a] for a in allat if roles_[a] == 'absent']
        if pres and any(pres) != all(pres):
            continue       # inconsistent presence indicators
        present = bool(pres) and all(pres)
        old = any(v[a] for a in allat if roles_[a] == 'old')
        new = v[new_atom]
        stored = [ev(f, v) for (c, f) in cases if ev(c, v)]
        if len(stored) != 1:
            ok_new = ok_merge = False
            continue
        if present:
            seen_merge = True
            ok_merge = ok_merge and stored[0] == (old or new)
        else:
            seen_new = True
            ok_new = ok_new and stored[0] == new
    yield ctx.ob('C20.CARDINALITY', ok_new and seen_new, fn, stores[0], 'a new relationship stores the observed cardinality', '' if ok_new and seen_new else
                 'a new relationship does not record the observed cardinality', construct='new')
    yield ctx.ob('C20.CARDINALITY', ok_merge and seen_merge, fn, stores[-1], 'an existing relationship is merged with OR(old, new)', '' if ok_merge and seen_merge else
                 'observations of the same relationship are not merged with OR: "many" depends on the order in which tasks are visited', construct='merge')


@rule('C20.ONE-BLOCK', ['C20'])
def one_block(ctx: Ctx):
    """One class block per registered type (dict keyed by type, setdefault); the renderer iterates the
    registry once for class blocks and once for relationships, filtering only empty relationship maps;
    each block lists all fields(task_type) and the run line."""
    at = ctx.P.func('diagram.TaskStructure.add_task_type')
    oks = any(isinstance(c.func, ast.Attribute) and c.func.attr == 'setdefault' and c.args and isinstance(c.args[0], ast.Name)
              and c.args[0].id == [a.arg for a in at.params if a.arg != at.self_name][0] for c in calls_in(at.node))
    yield ctx.ob('C20.ONE-BLOCK', oks, at, at.node, 'registry keyed by type via setdefault', '' if oks else
                 'add_task_type does not register each type exactly once (existing relationships would be reset or types duplicated)')
    ds = ctx.P.func('diagram.diagram_task_structure')
    comps = [n for n in walk_local(ds.node) if isinstance(n, ast.ListComp)]
    okc = okr = False
    for cp in comps:
        gen = cp.generators[0]
        it = src(gen.iter)
        if 'diagram_task_type' in src(cp.elt):
            okc = it.endswith('task_type_to_rels.keys()') or it.endswith('task_type_to_rels') and not gen.ifs
            okc = okc and not gen.ifs
        if 'diagram_task_relationship' in src(cp.elt):
            okr = it.endswith('task_type_to_rels.items()') and len(gen.ifs) <= 1
            if gen.ifs and isinstance(gen.target, ast.Tuple):
                v = gen.target.elts[1].id if isinstance(gen.target.elts[1], ast.Name) else None
                have = formula_of(ctx, ds, gen.ifs[0])
                okr = okr and v is not None and any(equivalent(have, formula_of(ctx, ds, t.format(v=v)))
                                                    for t in ('{v}', 'len({v}) > 0', 'len({v}) != 0', 'bool({v})'))
    yield ctx.ob('C20.ONE-BLOCK', okc, ds, ds.node, 'one class block per registered type, unfiltered', '' if okc else
                 'class blocks are not produced for every registered type', construct='blocks')
    yield ctx.ob('C20.ONE-BLOCK', okr, ds, ds.node, 'relationships of every type rendered (only empty maps skipped)', '' if okr else
                 'relationships are filtered by something other than emptiness', construct='rels')
    dr = ctx.P.func('diagram.diagram_task_relationship')
    cp = [n for n in walk_local(dr.node) if isinstance(n, ast.ListComp)]
    okd = bool(cp) and src(cp[0].generators[0].iter).endswith('.items()') and not cp[0].generators[0].ifs
    yield ctx.ob('C20.ONE-BLOCK', okd, dr, dr.node, 'one arrow per relationship key', '' if okd else 'not every relationship produces an arrow',
                 construct='arrows')
    okf = False
    fm = None
    for c in calls_in(dr.node):
        for q in ctx.P.resolve_call(c, dr, by_name=False):
            if q in ctx.P.funcs and len(ctx.P.funcs[q].params) == 1 and c.args and isinstance(c.args[0], ast.Attribute) \
                    and c.args[0].attr == 'multi_cardinality':
                fm = ctx.P.funcs[q]
    if fm is not None:
        pn = fm.params[0].arg
        ifs = [n for n in walk_local(fm.node) if isinstance(n, ast.If)]
        okf = len(ifs) == 1 and equivalent(formula_of(ctx, fm, ifs[0].test), formula_of(ctx, fm, pn)) \
            and any(isinstance(s, ast.Return) and isinstance(s.value, ast.Constant) and 'many' in s.value.value for s in ifs[0].body)
    else:
        # inlined form: a conditional expression '"many" ' if <info>.multi_cardinality else ''
        for n in walk_local(dr.node):
            if isinstance(n, ast.IfExp) and isinstance(n.body, ast.Constant) and isinstance(n.body.value, str) and 'many' in n.body.value \
                    and isinstance(n.orelse, ast.Constant) and n.orelse.value == '' \
                    and isinstance(n.test, ast.Attribute) and n.test.attr == 'multi_cardinality':
                okf = True
    yield ctx.ob('C20.ONE-BLOCK', okf, fm or dr, (fm or dr).node, '"many" rendered exactly for multi-cardinality relationships', '' if okf else
                 'the "many" marker is not rendered exactly when multi_cardinality is true', construct='many')
    dt = ctx.P.func('diagram.diagram_task_type')
    cps = [n for n in walk_local(dt.node) if isinstance(n, ast.ListComp)]
    okfl = False
    for cp2 in cps:
        gen = cp2.generators[0]
        if isinstance(gen.iter, ast.Call) and dotted(gen.iter.func) == 'fields' and gen.iter.args and isinstance(gen.iter.args[0], ast.Name) \
                and gen.iter.args[0].id == 'task_type':
            trivial = all(isinstance(i, ast.Name) and isinstance(gen.target, ast.Name) and i.id == gen.target.id for i in gen.ifs)
            okfl = trivial and 'name' in src(cp2.elt) and 'type' in src(cp2.elt)
    yield ctx.ob('C20.ONE-BLOCK', okfl, dt, dt.node, 'class block lists all fields(task_type) (inherited ones included)', '' if okfl else
                 'the class block does not list every dataclass field of the task type (e.g. inherited parameters are omitted)', construct='fields')
    okrun = any(isinstance(n, ast.JoinedStr) and 'run()' in ''.join(v.value for v in n.values if isinstance(v, ast.Constant)) for n in walk_local(dt.node))
    yield ctx.ob('C20.ONE-BLOCK', okrun, dt, dt.node, 'class block has the run() line', '' if okrun else 'the run() line is missing', construct='run-line')


@rule('C20.NONDET-FREE', ['C20'])
def diagram_nondet_free(ctx: Ctx):
    """No nondeterminism source (hash/id-dependent order, sets, time, randomness) in the closure of
    build_task_diagram."""
    from .values import _nondet_in
    b = ctx.P.func('diagram.build_task_diagram')
    fns = ctx.P.closure([b], include_nested=False)
    nd = [(f, n, w) for (f, n, w) in _nondet_in(ctx, fns) if not (w == 'id' and f.name == 'find_tasks_in_param')]
    for (f, node, what) in nd:
        yield ctx.ob('C20.NONDET-FREE', False, f, node, f'nondeterminism source {what}', f'{what} in the closure of build_task_diagram: the output can differ between runs')
    yield ctx.ob('C20.NONDET-FREE', not nd, b, b.node, f'closure of build_task_diagram: {len(fns)} functions, no nondeterminism source',
                 construct='closure')
