"""Self-test of the checker, both directions, in memory (thorough tier).

A *variant* is an edit of the current sources located by (file, function qualname, text
inside that function) - never by line number.  Must-fire variants break one obligation and
the named rule has to report a new violation; must-stay-silent variants preserve behaviour
and the verdict set must be identical to the base.  Variants are evaluated relative to the
current tree's verdicts; one whose locator no longer applies is reported as skipped.
"""
from __future__ import annotations

import ast
import os
import random
from dataclasses import dataclass, field
from typing import Callable, Optional

from .engine import ERROR, HOLDS, VIOLATED, Ob
from .model import Program


@dataclass
class Variant:
    name: str
    props: list[str]
    kind: str                  # 'fire' | 'silent'
    edits: list[tuple]         # (path, function-or-None, old, new[, count])
    expect: list[str] = field(default_factory=list)   # rule ids, any of which must newly fire
    note: str = ''


VARIANTS: list[Variant] = []


def fire(name: str, props, expect, *edits, note: str = '') -> None:
    props = [props] if isinstance(props, str) else list(props)
    expect = [expect] if isinstance(expect, str) else list(expect)
    VARIANTS.append(Variant(name, props, 'fire', list(edits), expect, note))


def silent(name: str, props, *edits, note: str = '') -> None:
    props = [props] if isinstance(props, str) else list(props)
    VARIANTS.append(Variant(name, props, 'silent', list(edits), [], note))


class EditError(Exception):
    pass


def func_span(source: str, qual: str) -> tuple[int, int]:
    """Character span of a function/class body given 'Class.method' or 'func' or
    'outer.<locals>.inner' (package-relative, module-less)."""
    tree = ast.parse(source)
    parts = [p for p in qual.split('.') if p != '<locals>']
    node: ast.AST = tree
    for p in parts:
        found = None
        for n in ast.walk(node):
            if n is node:
                continue
            if isinstance(n, (ast.FunctionDef, ast.AsyncFunctionDef, ast.ClassDef)) and n.name == p:
                found = n
                break
        if found is None:
            raise EditError(f'{qual}: {p} not found')
        node = found
    lines = source.splitlines(keepends=True)
    start = sum(len(l) for l in lines[:node.lineno - 1])
    end = sum(len(l) for l in lines[:node.end_lineno])
    return start, end


def apply_edits(sources: dict[str, str], edits: list[tuple]) -> dict[str, str]:
    out = dict(sources)
    for e in edits:
        if e[0] == '__patch__':
            out = apply_unified_diff(out, e[1])
            continue
        path, qual, old, new = e[0], e[1], e[2], e[3]
        count = e[4] if len(e) > 4 else 1
        if path not in out:
            raise EditError(f'{path} not in sources')
        s = out[path]
        if qual:
            a, b = func_span(s, qual)
        else:
            a, b = 0, len(s)
        seg = s[a:b]
        if seg.count(old) < 1 or (count and seg.count(old) != count):
            raise EditError(f'{path}:{qual}: locator text occurs {seg.count(old)} times (wanted {count}): {old[:50]!r}')
        seg = seg.replace(old, new)
        s = s[:a] + seg + s[b:]
        try:
            ast.parse(s)
        except SyntaxError as ex:
            raise EditError(f'{path}:{qual}: variant does not compile: {ex}')
        out[path] = s
    return out


def apply_unified_diff(sources: dict[str, str], patch: str) -> dict[str, str]:
    """Apply a `git diff` style patch to the in-memory sources (exact match of the hunk's old lines, searched
    near the stated position).  Raises EditError when a hunk does not apply."""
    import re
    out = dict(sources)
    cur = None
    hunks: dict[str, list] = {}
    lines = patch.splitlines()
    i = 0
    while i < len(lines):
        ln = lines[i]
        if ln.startswith('+++ '):
            path = ln[4:].strip()
            cur = path[2:] if path.startswith('b/') else path
            hunks.setdefault(cur, [])
        elif ln.startswith('@@') and cur is not None:
            m = re.match(r'@@ -(\d+)(?:,(\d+))? \+(\d+)(?:,(\d+))? @@', ln)
            start = int(m.group(1))
            old, newl = [], []
            i += 1
            while i < len(lines) and not lines[i].startswith(('@@', 'diff --git', '--- ', '+++ ')):
                h = lines[i]
                if h.startswith('+'):
                    newl.append(h[1:])
                elif h.startswith('-'):
                    old.append(h[1:])
                elif h.startswith('\\'):
                    pass
                else:
                    old.append(h[1:] if h.startswith(' ') else h)
                    newl.append(h[1:] if h.startswith(' ') else h)
                i += 1
            hunks[cur].append((start, old, newl))
            continue
        i += 1
    for path, hs in hunks.items():
        if path not in out:
            if path.startswith('labtech/'):
                raise EditError(f'{path} not in sources')
            continue
        text = out[path].split('\n')
        delta = 0
        for (start, old, newl) in hs:
            pos = None
            guess = start - 1 + delta
            for off in sorted(range(-40, 41), key=abs):
                p0 = guess + off
                if 0 <= p0 <= len(text) - len(old) and text[p0:p0 + len(old)] == old:
                    pos = p0
                    break
            if pos is None:
                raise EditError(f'{path}: hunk at line {start} does not apply')
            text[pos:pos + len(old)] = newl
            delta += len(newl) - len(old)
        out[path] = '\n'.join(text)
        try:
            ast.parse(out[path])
        except SyntaxError as ex:
            raise EditError(f'{path}: patched file does not compile: {ex}')
    return out


def load_variants() -> None:
    if VARIANTS:
        return
    from . import variants  # noqa: F401  (registers)
    _load_corpus_dirs()


def _load_corpus_dirs() -> None:
    """The independent sub-agents' changes are part of the corpus: seeded/<id>/patch.diff must be reported by the
    check of its property (by one of the rules recorded in meta.json), refactors/<id>/patch.diff must stay silent."""
    import glob
    import json
    root = os.path.dirname(os.path.dirname(os.path.abspath(__file__)))
    for m in sorted(glob.glob(os.path.join(root, 'seeded', '*', 'meta.json'))):
        d = os.path.dirname(m)
        try:
            j = json.load(open(m))
            patch = open(os.path.join(d, 'patch.diff')).read()
        except (OSError, ValueError):
            continue
        rules = j.get('check_result', {}).get('rules_reporting') or []
        VARIANTS.append(Variant('seeded-' + os.path.basename(d), [j['property']], 'fire', [('__patch__', patch)], rules,
                                note=(j.get('summary') or '')[:120]))
    for m in sorted(glob.glob(os.path.join(root, 'refactors', '*', 'meta.json'))):
        d = os.path.dirname(m)
        try:
            j = json.load(open(m))
            patch = open(os.path.join(d, 'patch.diff')).read()
        except (OSError, ValueError):
            continue
        prop = j.get('property', '')
        if not prop.startswith('C'):
            continue
        VARIANTS.append(Variant('refactor-' + os.path.basename(d), [prop[:3]], 'silent', [('__patch__', patch)], [],
                                note=(j.get('summary') or '')[:120]))


def _verdicts(obs: list[Ob]) -> tuple[set[str], set[str]]:
    viol = {o.key for o in obs if o.verdict == VIOLATED}
    errs = {o.key for o in obs if o.verdict == ERROR}
    return viol, errs


def run_variant(v: Variant, sources: dict[str, str], pid: str, base_viol: set[str], base_err: set[str]):
    from . import runner
    try:
        mutated = apply_edits(sources, v.edits)
    except EditError as ex:
        return 'skipped', str(ex), []
    prog = Program.from_sources(mutated)
    obs, _ctx, _sum = runner.run_rules(prog, pid, 'quick')
    viol, errs = _verdicts(obs)
    new_v = [o for o in obs if o.verdict == VIOLATED and o.key not in base_viol]
    new_e = [o for o in obs if o.verdict == ERROR and o.key not in base_err]
    if v.kind == 'fire':
        hit = [o for o in new_v if o.rule in v.expect]
        if hit:
            return 'ok', f'{hit[0].rule} fired at {hit[0].where}: {hit[0].message[:120]}', new_v
        others = sorted({o.rule for o in new_v})
        return 'FAILED', f'expected {v.expect} to fire; new violations: {others}; new errors: {sorted({o.rule for o in new_e})}', new_v
    else:
        if new_v or new_e:
            o = (new_v + new_e)[0]
            return 'FAILED', f'behaviour-preserving variant raised {o.verdict} {o.rule} at {o.where}: {o.message[:160]}', new_v
        return 'ok', 'verdicts unchanged', []


_PAR: dict = {}


def _par_one(i: int):
    v = _PAR['variants'][i]
    try:
        status, msg, _nv = run_variant(v, _PAR['sources'], _PAR['pid'], _PAR['base_viol'], _PAR['base_err'])
    except Exception as ex:   # never lose a variant silently
        status, msg = 'FAILED', f'self-test machinery raised {type(ex).__name__}: {ex}'
    return i, status, msg


def _run_parallel(mine: list, sources: dict, pid: str, base_viol: set, base_err: set) -> list[tuple[str, str]]:
    """Variants are independent in-memory analyses: spread them over the cores (fork, so nothing is pickled but the
    index and the two result strings); sequential fallback if no pool can be created."""
    import multiprocessing
    jobs = min(len(mine), int(os.environ.get('LT_STATIC_JOBS', '0')) or (os.cpu_count() or 1))
    out: list = [None] * len(mine)
    if jobs > 1 and len(mine) > 3:
        _PAR.update(variants=mine, sources=sources, pid=pid, base_viol=base_viol, base_err=base_err)
        try:
            ctx = multiprocessing.get_context('fork')
            with ctx.Pool(jobs) as pool:
                for i, status, msg in pool.imap_unordered(_par_one, range(len(mine)), chunksize=1):
                    out[i] = (status, msg)
        except (OSError, ValueError):
            out = [None] * len(mine)
        finally:
            _PAR.clear()
    for i, v in enumerate(mine):
        if out[i] is None:
            status, msg, _nv = run_variant(v, sources, pid, base_viol, base_err)
            out[i] = (status, msg)
    return out


def run_for_property(pid: str, program: Program, seed: int = 0, say: Callable[[str], None] = print) -> dict:
    """Thorough tier: evaluate this property's variant corpus against the current tree."""
    from . import runner
    load_variants()
    sources = {m.path: m.source for m in program.modules.values()}
    base_obs, _c, _s = runner.run_rules(Program.from_sources(sources), pid, 'quick')
    base_viol, base_err = _verdicts(base_obs)
    mine = [v for v in VARIANTS if pid in v.props]
    random.Random(seed).shuffle(mine)
    res = {'ok': 0, 'FAILED': 0, 'skipped': 0}
    obs: list[Ob] = []
    details = []
    outcomes = _run_parallel(mine, sources, pid, base_viol, base_err)
    for v, (status, msg) in zip(mine, outcomes):
        res[status] += 1
        details.append({'variant': v.name, 'kind': v.kind, 'status': status, 'detail': msg})
        if status == 'FAILED':
            say(f'  self-test {v.kind} variant {v.name}: FAILED: {msg}')
            obs.append(Ob('SELFTEST', ERROR, 'lt_static/variants.py', '', f'{v.kind} variant {v.name}', msg, v.name))
        elif status == 'skipped':
            say(f'  self-test {v.kind} variant {v.name}: skipped ({msg})')
    say(f'  self-test: {len(mine)} variants ({sum(1 for v in mine if v.kind == "fire")} must-fire, '
        f'{sum(1 for v in mine if v.kind == "silent")} must-stay-silent): {res}')
    return {'obs': obs, 'selftest_variants': len(mine), 'selftest_results': res,
            'selftest_details': details}


def _main_one(i: int):
    v, pid = _PAR['jobs'][i]
    try:
        status, msg, _ = run_variant(v, _PAR['sources'], pid, *_PAR['base'][pid])
    except Exception as ex:
        status, msg = 'FAILED', f'self-test machinery raised {type(ex).__name__}: {ex}'
    return i, status, msg


def main(argv: list[str]) -> int:
    """Developer entry: run all variants (optionally filtered by substring), spread over the cores."""
    import multiprocessing
    from . import runner
    load_variants()
    repo = os.environ.get('LT_STATIC_REPO', '/repo')
    program = Program.from_dir(repo)
    sources = {m.path: m.source for m in program.modules.values()}
    flt = argv[1:]
    jobs = []
    base: dict[str, tuple[set, set]] = {}
    for v in VARIANTS:
        if flt and not any(f in v.name or f in v.props for f in flt):
            continue
        for pid in v.props:
            if not runner.rules_for(pid, 'quick'):
                continue
            if pid not in base:
                bo, _c, _s = runner.run_rules(Program.from_sources(sources), pid, 'quick')
                base[pid] = _verdicts(bo)
            jobs.append((v, pid))
    out: list = [None] * len(jobs)
    nproc = min(len(jobs), int(os.environ.get('LT_STATIC_JOBS', '0')) or (os.cpu_count() or 1))
    _PAR.update(jobs=jobs, sources=sources, base=base)
    try:
        if nproc > 1 and len(jobs) > 3:
            with multiprocessing.get_context('fork').Pool(nproc) as pool:
                for i, status, msg in pool.imap_unordered(_main_one, range(len(jobs)), chunksize=1):
                    out[i] = (status, msg)
    except (OSError, ValueError):
        pass
    for i in range(len(jobs)):
        if out[i] is None:
            _i, status, msg = _main_one(i)
            out[i] = (status, msg)
    _PAR.clear()
    bad = 0
    for (v, pid), (status, msg) in zip(jobs, out):
        if status != 'ok':
            bad += 1
        print(f'{status:8s} {pid} {v.kind:6s} {v.name}: {msg}')
    print('not ok:', bad)
    return 1 if bad else 0
