"""Property registry: which properties are claimed, at what level, with which commands.

The single source of MANIFEST.json (tools/gen_manifest.py).  A property is *claimed* only
once its rule module exists in lt_static/rules and passes on the current tree; until then
it is listed under not_applicable with the reason "check under construction".
"""
from __future__ import annotations

PY = '/venv/bin/python'

# id -> dict(claimed, text, note, technique, design_ref, na_reason)
PROPERTIES: dict[str, dict] = {}


def _p(pid: str, **kw) -> None:
    PROPERTIES[pid] = kw


_LEVEL = ('Static analysis of the current source: every rule enumerates all instances of its site pattern in the '
          'resolved program (call graph, CFG with exception edges, reaching definitions, guard formulas in normal form) '
          'and checks a structural relation that is a necessary condition of the property for every input, schedule and '
          'fault point at once. Only the structural clauses listed here are decided, not the run-time behaviour: ')

_TRUST = (' Trusted: CPython ast parser, documented stdlib semantics of the calls the rules name, the lt_static engines '
          '(self-tested by must-fire / must-stay-silent variants in the thorough tier). User task code is opaque.')

_p('C01', claimed=True,
   text=_LEVEL + 'result routing - request-order re-keying, capture of requested results keyed by the yielded task, runner '
   'results keyed by the task whose execution produced them, run/load value provenance, Task.result reads its own entry, '
   'results map attached to every direct dependency before execution.',
   note='Not decided: that run() computes the reference value; equality of values across backends; real schedules.' + _TRUST,
   technique='provenance (reaching definitions, same-binding), loop completeness, dominance on the CFG',
   na_reason='check under construction (see DESIGN.md section 4)')
_p('C02', claimed=True,
   text=_LEVEL + 'dependency discovery tables agree with what construction produces, DAG edge registration is complete, the '
   'readiness gate dominates every submission, dependencies are unblocked only in the completion phase for a yielded task, '
   'results are stored before the success yield, a missing result raises.',
   note='Not decided: real start/finish instants under the real backends; only the gating logic is decided.' + _TRUST,
   technique='case-table agreement, guard formulas (emptiness normal form), field-write ownership by phase, CFG dominance',
   na_reason='check under construction (see DESIGN.md section 4)')
_p('C03', claimed=True,
   text=_LEVEL + 'submit-once pairing (start phase dominates submit, pending set only grows in construction), identity-level '
   'instance marking, dependencies of cache-served tasks are not expanded, plan-time and submit-time predicates agree, '
   'use_cache truth table, load-xor-execute in run_or_load_task.',
   note='Not decided: behaviour of user-defined __eq__/__hash__; run-time execution counts.' + _TRUST,
   technique='CFG dominance, control dependence, truth tables over guard atoms, field-write ownership, call-site agreement',
   na_reason='check under construction (see DESIGN.md section 4)')
_p('C04', claimed=True,
   text=_LEVEL + 'the per-type gate and the worker gate are in linear normal form with the exact bounds, active-task '
   'bookkeeping is owned by the start/completion phases, processes are constructed and started only in the sanctioned '
   'top-up routine, the max_workers default is os.cpu_count(), the serial runner runs one task per wait.',
   note='Not decided: instantaneous process counts under the real OS scheduler; os.cpu_count() returning None.' + _TRUST,
   technique='linear normal forms of guards and slice bounds, who-may-call over the package, field-write ownership',
   na_reason='check under construction (see DESIGN.md section 4)')
_p('C05', claimed=True,
   text=_LEVEL + 'every ready task is submitted before each wait, the ready scan is complete with only the two sanctioned '
   'skips in the sanctioned order, top-up happens at submit and at wait after slots are freed, the capacity bounds are '
   'equalities (never fewer), every terminal transition frees its slot.',
   note='Not decided: real scheduling latency; only the structural conditions of maximal parallelism.' + _TRUST,
   technique='loop completeness, must-pass on the CFG, exact path conditions (equivalence, not implication), typestate pairing',
   na_reason='check under construction (see DESIGN.md section 4)')
_p('C06', claimed=True,
   text=_LEVEL + 'writer/reader agreement between save and load: key provenance, file names, metadata keys and their '
   'inverse codecs, file modes and serialisers, save writes metadata and result, is_cached chain, load returns result+meta.',
   note='Not decided: byte-level fidelity of pickle/JSON; behaviour in a fresh interpreter (time zone, __main__).' + _TRUST,
   technique='table agreement (dict-literal keys vs reads, codec inverse table), provenance of key arguments, must-pass',
   na_reason='check under construction (see DESIGN.md section 4)')
_p('C07', claimed=True,
   text=_LEVEL + 'the key computation is free of nondeterminism sources and of context/result state, covers every field and '
   'nesting level and the class module+qualname, tests Enum before scalars, produces only characters the storage accepts; '
   'canonical ordering and shape disjointness are decided negatively (two known findings).',
   note='Not decided: __main__-defined classes; SHA-1 collision resistance; float/str edge cases of json.dumps.' + _TRUST,
   technique='effect closure over the call graph, case-table order, loop/comprehension completeness, abstract character sets',
   na_reason='check under construction (see DESIGN.md section 4)')
_p('C08', claimed=True,
   text=_LEVEL + 'who may write or delete storage (call-graph ownership), bust_cache honoured at plan and submit time, '
   'uncache loop complete, NullCache/NullStorage inert, LocalStorage and FsspecStorage agree on the feature vector of '
   'exists/file_handle/delete.',
   note='Not decided: step-by-step equivalence with a reference map; third-party fsspec back ends.' + _TRUST,
   technique='who-may-call ownership over the resolved call graph, truth tables, sibling feature-vector agreement',
   na_reason='check under construction (see DESIGN.md section 4)')
_p('C09', claimed=True,
   text=_LEVEL + 'serialiser/deserialiser shape tables agree (incl. recursion into lists and dicts), class/enum round-trip '
   'templates, load_task guards dominate the return, cached_tasks loop appends once per key and swallows only TaskNotFound, '
   'key-format prefix agreement, ordering agreement between key hashing and stored metadata.',
   note='Not decided: importability of the stored class path at load time; nested (non-module-level) classes.' + _TRUST,
   technique='case-table agreement between sibling functions, guard dominance, f-string template comparison',
   na_reason='check under construction (see DESIGN.md section 4)')
_p('C10', claimed=True,
   text=_LEVEL + 'failure branch completes the task then reports, outcome-type table covers what runners yield, partial maps '
   'are only subscripted under a guard, stores happen on success paths only, handle_failure truth table and raise-from, '
   'every runner converts any exception into a yielded failure, nothing is started from the exceptional exit.',
   note='Not decided: that every OS-level death is observed (is_alive semantics trusted).' + _TRUST,
   technique='exception-handler policies on the CFG, guarded-subscript analysis, type-table agreement, truth tables',
   na_reason='check under construction (see DESIGN.md section 4)')
_p('C11', claimed=True,
   text=_LEVEL + 'completion bookkeeping is success-independent, future/slot typestate pairing in ProcessExecutor, done '
   'futures are forgotten, dead-process detection order, main-loop condition, bounded drain.',
   note='Not decided: wall-clock bounds; bytecode-level interleavings; lost wake-ups under real scheduling.' + _TRUST,
   technique='path-local typestate, control dependence, dominance, loop-exit analysis',
   na_reason='check under construction (see DESIGN.md section 4)')
_p('C12', claimed=True,
   text=_LEVEL + 'every storage write effect of a save lies inside a handler that deletes the same key and re-raises; the '
   'failure propagates to the runner boundary.',
   note='Not decided: faults inside storage.delete itself (single-fault assumption of the property).' + _TRUST,
   technique='effect enumeration over the save closure + exception-handler coverage on the CFG',
   na_reason='check under construction (see DESIGN.md section 4)')
_p('C13', claimed=True,
   text=_LEVEL + 'commit-point rule: the effect that makes is_cached true must come after the last payload write as one '
   'atomic publish. Decided negatively on the pinned tree (known finding); the check reports any additional regression '
   '(payload order, visibility predicate).',
   note='Nothing further is decided; SIGKILL timing is outside static reach.' + _TRUST,
   technique='abstract effect trace of a save over the Storage API',
   na_reason='check under construction (see DESIGN.md section 4)')
_p('C14', claimed=True,
   text=_LEVEL + 'every exit of the interrupt handler raises KeyboardInterrupt, cancel precedes waits, nothing is submitted '
   'in the handler, stop on the second interrupt, KeyboardInterrupt transparency of calling-thread handlers, '
   'dequeue-before-deliver in wait generators, SIGINT ignored first in workers, queue consumed in a thread, cleanup in finally.',
   note='Not decided: real signal delivery instants; the fork->SIG_IGN window; interrupts between bytecodes.' + _TRUST,
   technique='exception-handler structure and exits on the CFG, dominance, generator suspension-point analysis, who-may-call',
   na_reason='check under construction (see DESIGN.md section 4)')
_p('C15', claimed=True,
   text=_LEVEL + 'type-case tables of construction / dependency search / serialiser / mlflow logger agree, every path of the '
   'normaliser ends in a sanctioned form, dataclass(frozen, eq) with __post_init__ attached first, reserved-name agreement, '
   'constructor/unpickle agreement, pickled state is clean and re-normalised.',
   note='Not decided: hash/eq laws and pickle round trips over all parameter trees (library semantics trusted).' + _TRUST,
   technique='case-table extraction and inclusion, path enumeration of a small function, attribute-set agreement',
   na_reason='check under construction (see DESIGN.md section 4)')
_p('C16', claimed=True,
   text=_LEVEL + 'process creation goes through the backend\'s start-method context, backend-name/start-method constant flow, '
   'the context reaching run_or_load_task derives from task.filter_context(Lab context) per backend and is set before run(), '
   'context never reaches keys/entries/pickles, one process per task, fork memory lifetime.',
   note='Not decided: what CPython/the OS actually do for a start method.' + _TRUST,
   technique='who-may-call over the package, receiver provenance, constant flow, CFG dominance',
   na_reason='check under construction (see DESIGN.md section 4)')
_p('C17', claimed=True,
   text=_LEVEL + 'release batches are processed completely, each present entry is deleted, capture precedes release, every '
   'outcome reaches the release call with the completion method\'s return value, the releasable set is computed exactly '
   'under the emptiness tests and independently of success, dependents bookkeeping is owned by construction/completion.',
   note='Not decided: garbage collection of released objects; real completion orders.' + _TRUST,
   technique='loop completeness, exact path conditions in normal form, reaching definitions, field-write ownership by phase')
_p('C18', claimed=True,
   text=_LEVEL + 'taint confinement: every filesystem sink in LocalStorage has a path operand that is the root, a constant '
   'child, a listed child (read-only), the validator\'s output, or a resolved file under a dominating parent guard; the '
   'validator rejects empty keys, all separator/dot characters and non-children after resolution.',
   note='Not decided: races with a concurrent writer of the storage directory; pathlib semantics are trusted.' + _TRUST,
   technique='taint/provenance analysis with a recognised sanitiser, guard facts on the CFG, loop completeness')
_p('C19', claimed=True,
   text=_LEVEL + 'log queue drained after the executor wait, stdout/stderr proxies flushed before the worker returns, buffer '
   'cleared when emitted, worker logger reset to exactly one queue handler, drain consumes everything, same queue end to end.',
   note='Not decided: inter-process queue latency; records emitted by threads a task leaves running.' + _TRUST,
   technique='must-pass / post-dominance on the CFG, path-local typestate, provenance of the queue argument',
   na_reason='check under construction (see DESIGN.md section 4)')
_p('C20', claimed=True,
   text=_LEVEL + 'worklist closure of the structure builder, relationship registration for every (field, sub-task) pair, '
   'cardinality truth table, one block per type, all fields listed, no nondeterminism source in the diagram closure.',
   note='Not decided: the exact Mermaid text for all graphs.' + _TRUST,
   technique='loop completeness, provenance (same binding), truth tables, effect closure',
   na_reason='check under construction (see DESIGN.md section 4)')


def build_manifest() -> dict:
    checks = []
    not_applicable = []
    for pid in sorted(PROPERTIES):
        p = PROPERTIES[pid]
        if not p.get('claimed'):
            not_applicable.append({'property_id': pid, 'reason': p['na_reason']})
            continue
        checks.append({
            'property_id': pid,
            'quick_cmd': f'{PY} check.py {pid} --tier quick',
            'thorough_cmd': f'{PY} check.py {pid} --tier thorough',
            'evidence_file': f'/verif/evidence/{pid}.json',
            'replay_cmd_template': f'{PY} check.py {pid} --replay {{path}}',
            'engine': 'lt_static',
            'level_claimed': {
                'category': 'other',
                'text': p['text'],
                'design_ref': p.get('design_ref', f'DESIGN.md section 4, {pid}'),
            },
            'level_note': p['note'],
            'technique': p['technique'],
        })
    return {
        'version': 1,
        'setup_cmd': f'{PY} check.py --self-check',
        'hooks': {
            'guard': 'LABTECH_VERIF',
            'enable': 'none needed: the checks read the source of /repo/labtech and never import or run it',
            'baseline_off_cmd': ('cd /repo && /venv/bin/python -m pytest -ra -q -p no:cacheprovider '
                                 '--timeout=900 --continue-on-collection-errors'),
            'source_commits': [],
            'add_only': True,
        },
        'engines': [{
            'name': 'lt_static',
            'path': '/verif/lt_static',
            'serves_properties': [c['property_id'] for c in checks],
            'kind_free_text': ('repository-specific static analyser (stdlib ast): program model with '
                               'resolved calls, statement CFG with dominators, reaching definitions, '
                               'guard formulas in normal form, effect/ownership tables'),
        }],
        'checks': checks,
        'not_applicable': not_applicable,
        'notes': ('Static analysis only: every check parses /repo/labtech at run time and never imports '
                  'or executes it. Exit 0 = all obligations hold (or only known findings), 1 = VIOLATION, '
                  '2 = ANALYSIS-ERROR (an anchor is missing or the analyser failed).'),
    }
