"""Property registry: which properties are claimed, at what level, with which commands.

The single source of MANIFEST.json (tools/gen_manifest.py).  A property is *claimed* only
once its rule module exists in lt_static/rules and passes on the current tree; until then
it is listed under not_applicable with the reason "check under construction".
"""
from __future__ import annotations

PY = '/venv/bin/python'

# id -> dict(claimed, text, note, technique, design_ref, na_reason)
PROPERTIES: dict[str, dict] = {}


def _p(pid: str, **kw) -> None:
    PROPERTIES[pid] = kw


for _i in range(1, 21):
    _p(f'C{_i:02d}', claimed=False, na_reason='check under construction (see DESIGN.md section 4)')


def build_manifest() -> dict:
    checks = []
    not_applicable = []
    for pid in sorted(PROPERTIES):
        p = PROPERTIES[pid]
        if not p.get('claimed'):
            not_applicable.append({'property_id': pid, 'reason': p['na_reason']})
            continue
        checks.append({
            'property_id': pid,
            'quick_cmd': f'{PY} check.py {pid} --tier quick',
            'thorough_cmd': f'{PY} check.py {pid} --tier thorough',
            'evidence_file': f'/verif/evidence/{pid}.json',
            'replay_cmd_template': f'{PY} check.py {pid} --replay {{path}}',
            'engine': 'lt_static',
            'level_claimed': {
                'category': 'other',
                'text': p['text'],
                'design_ref': p.get('design_ref', f'DESIGN.md section 4, {pid}'),
            },
            'level_note': p['note'],
            'technique': p['technique'],
        })
    return {
        'version': 1,
        'setup_cmd': f'{PY} check.py --self-check',
        'hooks': {
            'guard': 'LABTECH_VERIF',
            'enable': 'none needed: the checks read the source of /repo/labtech and never import or run it',
            'baseline_off_cmd': ('cd /repo && /venv/bin/python -m pytest -ra -q -p no:cacheprovider '
                                 '--timeout=900 --continue-on-collection-errors'),
            'source_commits': [],
            'add_only': True,
        },
        'engines': [{
            'name': 'lt_static',
            'path': '/verif/lt_static',
            'serves_properties': [c['property_id'] for c in checks],
            'kind_free_text': ('repository-specific static analyser (stdlib ast): program model with '
                               'resolved calls, statement CFG with dominators, reaching definitions, '
                               'guard formulas in normal form, effect/ownership tables'),
        }],
        'checks': checks,
        'not_applicable': not_applicable,
        'notes': ('Static analysis only: every check parses /repo/labtech at run time and never imports '
                  'or executes it. Exit 0 = all obligations hold (or only known findings), 1 = VIOLATION, '
                  '2 = ANALYSIS-ERROR (an anchor is missing or the analyser failed).'),
    }
