"""E3 - reaching definitions, provenance and branch facts on the CFG of one function."""
from __future__ import annotations

import ast
from typing import Iterable, Optional

from .cfg import CFG, header_parts
from .formula import FALSE, TRUE, FormulaBuilder, f_and, f_not, f_or
from .model import dotted, walk_local


def target_names(t: ast.AST) -> list[str]:
    """Names (and dotted attribute chains like 'self.x') bound by an assignment target."""
    out: list[str] = []
    if isinstance(t, ast.Name):
        out.append(t.id)
    elif isinstance(t, (ast.Tuple, ast.List)):
        for e in t.elts:
            out.extend(target_names(e))
    elif isinstance(t, ast.Starred):
        out.extend(target_names(t.value))
    elif isinstance(t, ast.Attribute):
        d = dotted(t)
        if d:
            out.append(d)
    return out


def node_defs(cfg: CFG, nid: int) -> list[str]:
    n = cfg.node(nid)
    a = n.ast
    out: list[str] = []
    if a is None:
        return out
    if n.kind == 'for':
        return target_names(a.target)
    if n.kind == 'iter_eval' or n.kind == 'with_exit':
        return _walrus_names([a]) if n.kind == 'iter_eval' else []
    if n.kind == 'with_enter':
        for it in a.items:
            if it.optional_vars is not None:
                out.extend(target_names(it.optional_vars))
        return out + _walrus_names(list(a.items))
    if n.kind == 'except_entry':
        return [a.name] if a.name else []
    if n.kind == 'test':
        return _walrus_names([a])
    if isinstance(a, ast.Assign):
        for t in a.targets:
            out.extend(target_names(t))
    elif isinstance(a, (ast.AugAssign, ast.AnnAssign)):
        if not (isinstance(a, ast.AnnAssign) and a.value is None):
            out.extend(target_names(a.target))
    elif isinstance(a, (ast.FunctionDef, ast.AsyncFunctionDef, ast.ClassDef)):
        out.append(a.name)
    elif isinstance(a, (ast.Import, ast.ImportFrom)):
        for al in a.names:
            out.append((al.asname or al.name).split('.')[0])
    elif isinstance(a, ast.Delete):
        for t in a.targets:
            if isinstance(t, ast.Name):
                out.append(t.id)
    if isinstance(a, ast.stmt):
        out.extend(_walrus_names(header_parts(a)))
    return out


def _walrus_names(parts: Iterable[ast.AST]) -> list[str]:
    out = []
    for p in parts:
        if p is None:
            continue
        for n in ast.walk(p):
            if isinstance(n, ast.NamedExpr) and isinstance(n.target, ast.Name):
                out.append(n.target.id)
    return out


def names_read(e: ast.AST) -> set[str]:
    """Local names an expression depends on (roots of attribute chains included as 'a' and 'a.b')."""
    out: set[str] = set()
    roots_of_chains: set[int] = set()
    for n in ast.walk(e):
        if isinstance(n, ast.Attribute):
            d = dotted(n)
            if d:
                out.add(d)
                x = n
                while isinstance(x, ast.Attribute):
                    x = x.value
                roots_of_chains.add(id(x))
    for n in ast.walk(e):
        # a bare name; the root of an attribute chain is covered by the dotted path (rebinding the root
        # still hits it as a prefix), so that writing self.a does not invalidate a fact about self.b
        if isinstance(n, ast.Name) and id(n) not in roots_of_chains:
            out.add(n.id)
    return out


class ReachingDefs:
    """Classic may-reaching definitions; a definition is (name, node id); parameters and free
    variables are defined at the entry node."""

    def __init__(self, cfg: CFG):
        self.cfg = cfg
        self.gen: dict[int, list[str]] = {n.id: node_defs(cfg, n.id) for n in cfg.nodes}
        self.IN: dict[int, dict[str, frozenset[int]]] = {}
        self._solve()

    def _solve(self) -> None:
        cfg = self.cfg
        live = cfg.live_nodes()
        IN: dict[int, dict[str, set[int]]] = {n: {} for n in live}
        OUT: dict[int, dict[str, set[int]]] = {n: {} for n in live}
        order = sorted(live)
        all_names = {name for names in self.gen.values() for name in names}
        changed = True
        while changed:
            changed = False
            for n in order:
                new_in: dict[str, set[int]] = {}
                for p in cfg.predecessors(n):
                    if p not in live:
                        continue
                    for name, ds in OUT[p].items():
                        new_in.setdefault(name, set()).update(ds)
                IN[n] = new_in
                out = {k: set(v) for k, v in new_in.items()}
                if n == cfg.entry:
                    # every name that is (re)defined somewhere has an explicit "entry" definition
                    # (parameter / free variable / unbound), so that a join of a defining and a
                    # non-defining path keeps both
                    for name in all_names:
                        out[name] = {n}
                for name in self.gen[n]:
                    out[name] = {n}
                    # assigning a.b kills nothing else; assigning a kills a.* definitions
                    for k in list(out):
                        if k.startswith(name + '.'):
                            del out[k]
                if out != OUT[n]:
                    OUT[n] = out
                    changed = True
        self.IN = {n: {k: frozenset(v) for k, v in d.items()} for n, d in IN.items()}

    def reaching(self, nid: int, name: str) -> frozenset[int]:
        """Definition nodes of `name` that may reach the *entry* of node nid; the CFG entry
        node stands for "parameter / free variable / not defined in this function"."""
        ds = self.IN.get(nid, {}).get(name)
        if not ds:
            return frozenset([self.cfg.entry])
        return ds

    def single_def(self, nid: int, name: str) -> Optional[int]:
        ds = self.reaching(nid, name)
        if len(ds) == 1:
            return next(iter(ds))
        return None

    def same_binding(self, nid1: int, nid2: int, name: str) -> bool:
        a, b = self.reaching(nid1, name), self.reaching(nid2, name)
        return len(a) == 1 and a == b

    def def_value(self, def_nid: int, name: str) -> Optional[tuple[str, ast.AST]]:
        """What a definition node binds `name` to: ('value', expr) for x = expr;
        ('element', iterable_expr) for a loop target; ('unpack', expr) for tuple targets;
        ('param', arg) at entry; ('with', ctx_expr); ('except', handler)."""
        n = self.cfg.node(def_nid)
        a = n.ast
        if def_nid == self.cfg.entry:
            return ('param', self.cfg.fn_node)
        if n.kind == 'for':
            if isinstance(a.target, ast.Name):
                return ('element', a.iter)
            return ('element_unpack', a.iter)
        if n.kind == 'with_enter':
            for it in a.items:
                if it.optional_vars is not None and name in target_names(it.optional_vars):
                    return ('with', it.context_expr)
        if n.kind == 'except_entry':
            return ('except', a)
        if isinstance(a, ast.Assign):
            for t in a.targets:
                if isinstance(t, ast.Name) and t.id == name:
                    return ('value', a.value)
                if isinstance(t, ast.Attribute) and dotted(t) == name:
                    return ('value', a.value)
                if name in target_names(t):
                    return ('unpack', a.value)
        if isinstance(a, ast.AnnAssign) and a.value is not None:
            return ('value', a.value)
        if isinstance(a, ast.AugAssign):
            return ('aug', a.value)
        for sub in ast.walk(a) if a is not None else []:
            if isinstance(sub, ast.NamedExpr) and isinstance(sub.target, ast.Name) and sub.target.id == name:
                return ('value', sub.value)
        return None


_RD_CACHE: dict[int, ReachingDefs] = {}


def reaching_defs(cfg: CFG) -> ReachingDefs:
    rd = _RD_CACHE.get(id(cfg))
    if rd is None or rd.cfg is not cfg:
        rd = ReachingDefs(cfg)
        _RD_CACHE[id(cfg)] = rd
    return rd


def clear_cache() -> None:
    _RD_CACHE.clear()


# ----------------------------------------------------------------------------------------
# branch facts: which tests are known to have which outcome on every path reaching a node


class BranchFacts:
    """Forward must-analysis.  A fact is (test node id, polarity).  A fact is killed when a
    name its test reads is redefined (so facts never go stale across loop iterations)."""

    def __init__(self, cfg: CFG, exc: bool = True):
        self.cfg = cfg
        self.exc = exc
        self.test_reads: dict[int, set[str]] = {}
        for n in cfg.nodes:
            if n.kind == 'test' and n.ast is not None:
                self.test_reads[n.id] = names_read(n.ast)
        self.facts: dict[int, frozenset[tuple[int, bool]]] = {}
        self._solve()

    def _kills(self, nid: int) -> set[str]:
        return set(node_defs(self.cfg, nid))

    def _solve(self) -> None:
        cfg = self.cfg
        live = cfg.reachable([cfg.entry], exc=self.exc)
        TOP = None
        IN: dict[int, Optional[set]] = {n: TOP for n in live}
        IN[cfg.entry] = set()
        order = sorted(live)
        changed = True
        while changed:
            changed = False
            for n in order:
                if IN[n] is None:
                    continue
                base = set(IN[n])
                kills = self._kills(n)
                if kills:
                    base = {(t, pol) for (t, pol) in base
                            if not any(self._name_hits(k, self.test_reads.get(t, ())) for k in kills)}
                for (s, lab) in cfg.succ.get(n, []):
                    if s not in live or (lab == 'exc' and not self.exc):
                        continue
                    out = set(base)
                    if cfg.node(n).kind == 'test' and lab in ('true', 'false'):
                        # a test whose own reads are redefined by its walrus is not recorded
                        out.add((n, lab == 'true'))
                    if IN[s] is None:
                        IN[s] = out
                        changed = True
                    else:
                        new = IN[s] & out
                        if new != IN[s]:
                            IN[s] = new
                            changed = True
        self.facts = {n: frozenset(v or ()) for n, v in IN.items()}

    @staticmethod
    def _name_hits(defined: str, reads: Iterable[str]) -> bool:
        for r in reads:
            if r == defined or r.startswith(defined + '.') or defined.startswith(r + '.'):
                return True
        return False

    def at(self, nid: int) -> frozenset[tuple[int, bool]]:
        return self.facts.get(nid, frozenset())

    def formula_at(self, nid: int, fb: FormulaBuilder, expand=None):
        """Conjunction of the facts at nid; `expand(expr, test_node_id)` may rewrite each test
        (e.g. substitute locals by their definitions) before it is normalised."""
        parts = []
        for (t, pol) in sorted(self.at(nid)):
            e = self.cfg.node(t).ast
            if expand is not None:
                e = expand(e, t)
            f = fb.build(e)
            parts.append(f if pol else f_not(f))
        return f_and(*parts)


def path_condition(cfg: CFG, region_entry: int, target: int, region: set[int], fb: FormulaBuilder,
                   exc: bool = False, expand=None):
    """Exact condition (formula over the tests inside the region) under which control, having
    entered the acyclic region at region_entry, reaches target.  Back edges to region_entry are
    ignored (one iteration of a loop body)."""
    memo: dict[int, object] = {}
    onstack: set[int] = set()

    def cond(n: int):
        if n == region_entry:
            return TRUE
        if n in memo:
            return memo[n]
        if n in onstack:
            return FALSE
        onstack.add(n)
        alts = []
        for (p, lab) in cfg.pred.get(n, []):
            if (lab == 'exc' and not exc) or (p not in region and p != region_entry):
                continue
            if p == region_entry and lab in ('back', 'continue'):
                continue
            c = cond(p)
            if c == FALSE:
                continue
            pn = cfg.node(p)
            if pn.kind == 'test' and lab in ('true', 'false') and p != region_entry:
                # (the region entry's own test - a while condition - is not part of the condition
                # *within* one iteration)
                t = fb.build(expand(pn.ast, p) if expand is not None else pn.ast)
                c = f_and(c, t if lab == 'true' else f_not(t))
            alts.append(c)
        onstack.discard(n)
        r = f_or(*alts) if alts else FALSE
        memo[n] = r
        return r

    return cond(target)


def guard_like(e: ast.AST) -> bool:
    """Definitions that may be substituted into a guard automatically: named booleans and aliases of
    sub-expressions - comparisons, boolean operators, attribute chains, subscripts, constants and calls to
    a few value-only builtins.  Constructor calls and other calls are left alone."""
    if isinstance(e, (ast.Name, ast.Constant)):
        return True
    if isinstance(e, ast.Attribute):
        return guard_like(e.value)
    if isinstance(e, ast.Subscript):
        return guard_like(e.value) and guard_like(e.slice)
    if isinstance(e, ast.Compare):
        return guard_like(e.left) and all(guard_like(c) for c in e.comparators)
    if isinstance(e, ast.BoolOp):
        return all(guard_like(v) for v in e.values)
    if isinstance(e, ast.UnaryOp):
        return guard_like(e.operand)
    if isinstance(e, ast.BinOp):
        return guard_like(e.left) and guard_like(e.right)
    if isinstance(e, ast.IfExp):
        return guard_like(e.test) and guard_like(e.body) and guard_like(e.orelse)
    if isinstance(e, (ast.Tuple, ast.List, ast.Set)):
        return all(guard_like(x) for x in e.elts)
    if isinstance(e, ast.Call):
        d = dotted(e.func) or ''
        last = d.split('.')[-1]
        queryish = last.endswith('_count') or last.startswith(('is_', 'has_', 'use_'))
        if (queryish or last in ('type', 'len', 'isinstance', 'getattr', 'hasattr', 'is_task', 'is_task_type', 'bool', 'get', 'fullmatch',
                                 'match', 'startswith', 'endswith', 'max', 'min', 'cast')) \
                and not any(kw.arg is None for kw in e.keywords):
            base_ok = guard_like(e.func.value) if isinstance(e.func, ast.Attribute) else True
            return base_ok and all(guard_like(a) for a in e.args) and all(guard_like(k.value) for k in e.keywords)
        return False
    return False


_MUTATORS = frozenset({'append', 'extend', 'add', 'update', 'insert', 'pop', 'remove', 'discard', 'clear', 'setdefault', 'popitem',
                        'sort', 'reverse', 'appendleft', 'popleft', 'difference_update', 'intersection_update'})


def _mutated_in_place(cfg: CFG, name: str) -> bool:
    fn = cfg.fn_node
    cache = getattr(cfg, '_mut_cache', None)
    if cache is None:
        cache = {}
        cfg._mut_cache = cache
    if name not in cache:
        hit = False
        for x in ast.walk(fn):
            if isinstance(x, ast.Call) and isinstance(x.func, ast.Attribute) and x.func.attr in _MUTATORS \
                    and isinstance(x.func.value, ast.Name) and x.func.value.id == name:
                hit = True
            elif isinstance(x, ast.Subscript) and isinstance(x.ctx, (ast.Store, ast.Del)) and isinstance(x.value, ast.Name) and x.value.id == name:
                hit = True
        cache[name] = hit
    return cache[name]


def expand_locals(cfg: CFG, rd: ReachingDefs, expr: ast.AST, at: int, depth: int = 4,
                  stop: Iterable[str] = (), only=None) -> ast.AST:
    """Substitute local names in expr by their defining expressions when they have exactly one
    reaching definition of the form `name = <expr>` at node `at` (recursively, bounded).
    Parameters, loop targets, with-targets and names with several definitions stay as they are."""
    import copy
    stop_s = set(stop)

    class X(ast.NodeTransformer):
        def __init__(self, at_node: int, d: int):
            self.at = at_node
            self.d = d

        def visit_Name(self, node: ast.Name):
            if not isinstance(node.ctx, ast.Load) or node.id in stop_s or self.d <= 0:
                return node
            dn = rd.single_def(self.at, node.id)
            if dn is None or dn == cfg.entry:
                return node
            dv = rd.def_value(dn, node.id)
            if dv is None or dv[0] != 'value':
                return node
            if only is not None and not only(dv[1]):
                return node
            if isinstance(dv[1], (ast.List, ast.Dict, ast.Set, ast.ListComp, ast.SetComp, ast.DictComp)) and _mutated_in_place(cfg, node.id):
                # a container that is filled in place afterwards (`acc = []` ... `acc.extend(xs)`): the name no longer
                # stands for its initial display
                return node
            # the defining expression is evaluated at dn: expand it there
            inner = X(dn, self.d - 1).visit(copy.deepcopy(dv[1]))
            # only sound if the names the definition reads are not redefined between dn and at
            for nm in names_read(inner):
                if '.' in nm:
                    continue
                if rd.reaching(self.at, nm) != rd.reaching(dn, nm) and nm != node.id:
                    return node
            return inner

    return X(at, depth).visit(copy.deepcopy(expr))
