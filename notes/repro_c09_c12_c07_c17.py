import os, sys, logging, tempfile, time, traceback, json, pickle
from enum import Enum
import labtech
from labtech.lab import Lab
from frozendict import frozendict

class Color(Enum):
    R = 1

@labtech.task
class Leaf:
    x: int
    def run(self):
        return self.x

@labtech.task
class Agg:
    leaves: list
    def run(self):
        return sum(l.result for l in self.leaves)

@labtech.task
class D:
    d: dict
    def run(self):
        return 1

@labtech.task
class Bad:
    x: int
    def run(self):
        return lambda: 1   # unpicklable

@labtech.task(cache=None)
class Boom:
    x: int
    def run(self):
        raise ValueError('boom')

@labtech.task(cache=None)
class Mid:
    a: Leaf
    b: Boom
    def run(self):
        return self.a.result

if __name__ == '__main__':
    logging.getLogger('labtech').setLevel(logging.CRITICAL)
    which = sys.argv[1]
    kw = dict(disable_progress=True, disable_top=True)
    if which == 'c09':
        with tempfile.TemporaryDirectory() as d:
            lab = Lab(storage=d, runner_backend='serial')
            t = Agg([Leaf(1), Leaf(2)])
            lab.run_tasks([t], **kw)
            got = lab.cached_tasks([Agg])
            print('orig', t); print('got ', got); print('equal', got == [t], 'key', got[0].cache_key == t.cache_key)
    if which == 'c12':
        with tempfile.TemporaryDirectory() as d:
            lab = Lab(storage=d, runner_backend='serial')
            t = Bad(1)
            r = lab.run_tasks([t], **kw) if False else None
            try:
                r = lab.run_tasks([t], **kw)
            except BaseException as e:
                print('run1 raised', type(e).__name__)
            print('is_cached', lab.is_cached(t), os.listdir(os.path.join(d, t.cache_key)) if lab.is_cached(t) else None)
            print('cached_tasks', lab.cached_tasks([Bad]))
            try:
                print('run2', lab.run_tasks([t], **kw))
            except BaseException as e:
                print('run2 raised', type(e).__name__, e)
    if which == 'c07':
        a = D({'a':1,'b':2}); b = D({'b':2,'a':1})
        print('eq', a==b, 'hash', hash(a)==hash(b), 'samekey', a.cache_key==b.cache_key)
        e = D({'k': Color.R}); f = D({'k': {'_is_enum': True, '__class__': '__main__.Color', 'name':'R'}})
        print('enum-vs-dict eq', e==f, 'samekey', e.cache_key==f.cache_key)
        print('1 vs 1.0 vs True eq', Leaf(1)==Leaf(1.0)==Leaf(True), Leaf(1).cache_key, Leaf(1.0).cache_key, Leaf(True).cache_key)
    if which == 'c17':
        from labtech.runners.serial import SerialRunner, SerialRunnerBackend
        holder = {}
        class B(SerialRunnerBackend):
            def build_runner(self, **k):
                r = super().build_runner(**k); holder['r'] = r; return r
        lab = Lab(storage=None, runner_backend=B())
        try:
            r = lab.run_tasks([Mid(Leaf(1), Boom(1))], **kw)
        except KeyError as e:
            print('raised KeyError', e)
        print('left in results_map:', list(holder['r'].results_map))
