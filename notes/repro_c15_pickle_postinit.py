import pickle, sys, logging
import labtech
from labtech.lab import Lab
logging.getLogger('labtech').setLevel(logging.CRITICAL)

@labtech.task(cache=None)
class P:
    x: int
    def post_init(self):
        object.__setattr__(self, 'derived', self.x * 2)
    def run(self):
        return self.derived

if __name__ == '__main__':
    t = P(3)
    u = pickle.loads(pickle.dumps(t))
    print('orig derived', t.derived, 'copy has derived', hasattr(u, 'derived'), 'has context', hasattr(u,'context'), 'has result_meta', hasattr(u,'result_meta'))
    for be in ['serial', 'fork', 'spawn']:
        lab = Lab(storage=None, runner_backend=be, continue_on_failure=False)
        try:
            print(be, lab.run_tasks([P(3)], disable_progress=True, disable_top=True))
        except BaseException as e:
            print(be, 'RAISED', type(e).__name__, e)
    # flush duplicates
    from labtech.utils import LoggerFileProxy
    out=[]
    p = LoggerFileProxy(out.append, 'P:')
    p.write('a'); p.flush(); p.flush()
    print(out)
