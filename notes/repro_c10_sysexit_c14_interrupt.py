import sys, logging, time
import labtech
from labtech.lab import Lab

@labtech.task(cache=None)
class Exit:
    x: int
    def run(self):
        sys.exit(3)

@labtech.task(cache=None)
class Ok:
    x: int
    def run(self):
        time.sleep(0.05 * self.x)
        return self.x

class KIOnce(logging.Handler):
    """Delivers one KeyboardInterrupt at a chosen line boundary of the calling thread."""
    def __init__(self, needle):
        super().__init__(); self.needle = needle; self.fired = False
    def emit(self, record):
        if not self.fired and self.needle in record.getMessage():
            self.fired = True
            raise KeyboardInterrupt()

if __name__ == '__main__':
    which = sys.argv[1]
    kw = dict(disable_progress=True, disable_top=True)
    if which == 'exit':
        logging.getLogger('labtech').setLevel(logging.CRITICAL)
        for be in ['serial', 'fork']:
            lab = Lab(storage=None, runner_backend=be, continue_on_failure=True, max_workers=2)
            try:
                print(be, 'returned', lab.run_tasks([Ok(1), Exit(1)], **kw))
            except BaseException as e:
                print(be, 'RAISED', type(e).__name__, e)
    if which == 'ki':
        lg = logging.getLogger('labtech'); lg.setLevel(logging.DEBUG); lg.handlers = [KIOnce("Removing result from in-memory cache for task: 'Ok(x=1)'")]
        for be in ['fork']:
            lab = Lab(storage=None, runner_backend=be, continue_on_failure=True, max_workers=4)
            try:
                print(be, 'returned', lab.run_tasks([Ok(1), Ok(30)], **kw))
            except BaseException as e:
                print(be, 'RAISED', type(e).__name__, repr(e))
