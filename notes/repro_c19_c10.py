import os, sys, logging, tempfile, time, traceback
import labtech
from labtech.lab import Lab

class Collect(logging.Handler):
    def __init__(s): super().__init__(); s.msgs=[]
    def emit(s, r): s.msgs.append(r.getMessage())

@labtech.task(cache=None)
class Talk:
    x: int
    delay: float
    def run(self):
        time.sleep(self.delay)
        labtech.logger.info(f'hello-from-{self.x}')
        print(f'stdout-from-{self.x}')
        return self.x

@labtech.task(cache=None)
class Boom:
    x: int
    def run(self):
        raise ValueError('boom')

@labtech.task(cache=None)
class Child:
    dep: Boom
    other: Talk
    def run(self):
        return ('child', self.other.result)

@labtech.task(cache=None)
class Reads:
    dep: Boom
    def run(self):
        return self.dep.result

if __name__ == '__main__':
    h = Collect(); labtech.logger.addHandler(h)
    which = sys.argv[1]
    if which == 'c19':
        for be in ['fork']:
            h.msgs.clear()
            lab = Lab(storage=None, runner_backend=be, max_workers=4)
            lab.run_tasks([Talk(1,0.0), Talk(2,0.2), Talk(3, 0.7)], disable_progress=True, disable_top=True)
            print(be, [m for m in h.msgs if 'from' in m])
    if which == 'c10a':
        for be in ['serial','fork','spawn']:
            lab = Lab(storage=None, runner_backend=be, max_workers=2, continue_on_failure=True)
            try:
                r = lab.run_tasks([Boom(1), Talk(1,0.0)], disable_progress=True, disable_top=True)
                print(be, 'returned', r)
            except BaseException as e:
                print(be, 'RAISED', type(e).__name__, e)
    if which == 'c10b':
        for be in ['serial','fork','spawn']:
            lab = Lab(storage=None, runner_backend=be, max_workers=2, continue_on_failure=True)
            try:
                r = lab.run_tasks([Talk(5,0.0), Child(Boom(1), Talk(1,0.0))], disable_progress=True, disable_top=True)
                print(be, 'returned', r)
            except BaseException as e:
                print(be, 'RAISED', type(e).__name__, repr(e))
