import os, sys, multiprocessing, logging, tempfile
import labtech
from labtech.lab import Lab

GLOBAL = 'import-time'

@labtech.task(cache=None)
class Probe:
    x: int
    def run(self):
        import multiprocessing as mp
        return (os.getpid(), os.getppid(), GLOBAL, mp.get_start_method(allow_none=True))

if __name__ == '__main__':
    GLOBAL = 'mutated-in-parent'
    for be in ['serial','fork','spawn']:
        lab = Lab(storage=None, runner_backend=be)
        r = lab.run_tasks([Probe(1)], disable_progress=True, disable_top=True)
        print(be, os.getpid(), r)
