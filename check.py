#!/venv/bin/python
"""Static-analysis checks for the labtech properties.

usage: /venv/bin/python check.py <Cxx> [--tier quick|thorough] [--replay <path>] [--repo <dir>]
       /venv/bin/python check.py --self-check
       /venv/bin/python check.py --all [--tier ...]

exit 0: every obligation of the property holds on the current tree (or only known findings)
exit 1: a violation not listed in known_findings.json ("VIOLATION property=<id> replay=<path>")
exit 2: ANALYSIS-ERROR - an anchor is missing or the analyser failed; never a silent pass
"""
import argparse
import json
import os
import sys

HERE = os.path.dirname(os.path.abspath(__file__))
sys.path.insert(0, HERE)


def main() -> int:
    ap = argparse.ArgumentParser()
    ap.add_argument('property', nargs='?')
    ap.add_argument('--tier', default=os.environ.get('VERIF_TIER') or 'quick', choices=['quick', 'thorough'])
    ap.add_argument('--replay')
    ap.add_argument('--repo', default=None)
    ap.add_argument('--self-check', action='store_true')
    ap.add_argument('--all', action='store_true')
    ap.add_argument('--no-evidence', action='store_true')
    args = ap.parse_args()
    try:
        seed = int(os.environ.get('VERIF_SEED', '0') or 0)
    except ValueError:
        seed = 0

    try:
        from lt_static import runner
        from lt_static.registry import PROPERTIES
    except Exception as ex:  # pragma: no cover
        print(f'ANALYSIS-ERROR cannot import the analyser: {type(ex).__name__}: {ex}')
        return 2

    if args.self_check:
        runner.load_rules()
        from lt_static.engine import RULES
        from lt_static.model import Program
        p = Program.from_dir(args.repo or runner.REPO)
        p.check_anchor_modules()
        print(f'lt_static ok: {len(RULES)} rules loaded; {p.stats()}')
        return 0

    if args.all:
        worst = 0
        for pid in sorted(PROPERTIES):
            if PROPERTIES[pid].get('claimed') or runner.rules_for(pid, args.tier):
                rc = runner.check_property(pid, args.tier, seed, repo=args.repo,
                                           write_evidence=not args.no_evidence)
                worst = max(worst, rc)
        return worst

    if not args.property:
        ap.print_usage()
        return 2
    pid = args.property
    if args.replay:
        try:
            with open(args.replay) as f:
                rp = json.load(f)
            print(f'replaying {rp["obligation"]["rule"]} for {pid}: {rp["obligation"]["where"]} '
                  f'{rp["obligation"]["function"]}: {rp["obligation"]["message"]}')
        except Exception as ex:
            print(f'ANALYSIS-ERROR cannot read replay file: {ex}')
            return 2
        return runner.check_property(pid, args.tier, seed, repo=args.repo, write_evidence=False)
    return runner.check_property(pid, args.tier, seed, repo=args.repo, write_evidence=not args.no_evidence)


if __name__ == '__main__':
    try:
        rc = main()
    except SystemExit:
        raise
    except BaseException as ex:  # a traceback must not look like a violation
        import traceback
        traceback.print_exc()
        print(f'ANALYSIS-ERROR {type(ex).__name__}: {ex}')
        rc = 2
    sys.exit(rc)
